/-
Helper lemmas for the `GIRBlockViewer` constructor model: the block ranges it records are exactly
the pairs of positions a scan of the statement ids finds.
-/
import LianVerif.Model.BlockView

namespace LianVerif.BlockView

/-- positions (counted from `s`) of the statements whose id is `id` — the scan -/
def occFrom (s : Nat) : List Stmt → Int → List Nat
  | [], _ => []
  | st :: rest, id => if st.id = id then s :: occFrom (s + 1) rest id else occFrom (s + 1) rest id

def occ (l : List Stmt) (id : Int) : List Nat := occFrom 0 l id

theorem occFrom_append (l : List Stmt) (st : Stmt) (id : Int) :
    ∀ s, occFrom s (l ++ [st]) id = occFrom s l id ++ (if st.id = id then [s + l.length] else []) := by
  induction l with
  | nil => intro s; by_cases h : st.id = id <;> simp [occFrom, h]
  | cons x xs ih =>
    intro s
    have e : s + 1 + xs.length = s + (xs.length + 1) := by omega
    by_cases h : x.id = id
    · simp [occFrom, h, ih (s + 1), e]
    · simp [occFrom, h, ih (s + 1), e]

theorem occ_append (l : List Stmt) (st : Stmt) (id : Int) :
    occ (l ++ [st]) id = occ l id ++ (if st.id = id then [l.length] else []) := by
  have := occFrom_append l st id 0
  simpa [occ] using this

theorem lookupFirst_append_ne (l : List (Int × Nat × Kind)) (e : Int × Nat × Kind) (id : Int)
    (h : e.1 ≠ id) : lookupFirst (l ++ [e]) id = lookupFirst l id := by
  unfold lookupFirst
  rw [List.find?_append]
  cases hf : l.find? (fun x => decide (x.1 = id)) with
  | some x => simp
  | none => simp [List.find?, h]

theorem lookupFirst_append_none (l : List (Int × Nat × Kind)) (e : Int × Nat × Kind)
    (h : lookupFirst l e.1 = none) : lookupFirst (l ++ [e]) e.1 = some e.2 := by
  unfold lookupFirst at *
  rw [List.find?_append]
  cases hf : l.find? (fun x => decide (x.1 = e.1)) with
  | some x => simp [hf] at h
  | none => simp [List.find?]

theorem lookupRange_cons_ne (l : List (Int × Nat × Nat)) (e : Int × Nat × Nat) (id : Int)
    (h : e.1 ≠ id) : lookupRange (e :: l) id = lookupRange l id := by
  simp [lookupRange, List.find?, h]

theorem lookupRange_cons_eq (l : List (Int × Nat × Nat)) (e : Int × Nat × Nat) :
    lookupRange (e :: l) e.1 = some e.2 := by
  simp [lookupRange, List.find?]


theorem get_append_some {pre : List Stmt} {st x : Stmt} {i : Nat} (h : pre[i]? = some x) :
    (pre ++ [st])[i]? = some x := by
  have hi : i < pre.length := by
    by_cases hi : i < pre.length
    · exact hi
    · rw [List.getElem?_eq_none (by omega)] at h; exact absurd h (by simp)
  rw [List.getElem?_append_left hi]; exact h

theorem get_append_last (pre : List Stmt) (st : Stmt) : (pre ++ [st])[pre.length]? = some st := by
  simp

/-- what the state knows after the prefix `pre`, phrased against the scan `occ` -/
structure Inv (pre : List Stmt) (s : St) : Prop where
  n : s.n = pre.length
  firstNone : ∀ id, lookupFirst s.first id = none ↔ occ pre id = []
  firstSome : ∀ id i k, lookupFirst s.first id = some (i, k) →
    (∃ t, occ pre id = i :: t) ∧ pre[i]? = some ⟨k, id⟩
  stack : ∀ bid p, (bid, p) ∈ s.stack → occ pre bid = [p] ∧ pre[p]? = some ⟨Kind.start, bid⟩
  range : ∀ id p q, lookupRange s.ranges id = some (p, q) →
    occ pre id = [p, q] ∧ pre[p]? = some ⟨Kind.start, id⟩ ∧ pre[q]? = some ⟨Kind.fin, id⟩
  two : ∀ id, (occ pre id).length ≤ 2
  closed : ∀ id p q, occ pre id = [p, q] → lookupRange s.ranges id = some (p, q)
  nodup : (s.stack.map (fun e => e.1)).Nodup

theorem inv_init : Inv [] St.init := by
  refine ⟨rfl, ?_, ?_, ?_, ?_, ?_, ?_, ?_⟩ <;> simp [St.init, lookupFirst, lookupRange, occ, occFrom]

/-- the facts about ids other than the one just consumed carry over -/
theorem occ_ne {pre : List Stmt} {st : Stmt} {id : Int} (h : st.id ≠ id) :
    occ (pre ++ [st]) id = occ pre id := by
  rw [occ_append]; simp [h]

theorem occ_eq (pre : List Stmt) (st : Stmt) : occ (pre ++ [st]) st.id = occ pre st.id ++ [pre.length] := by
  rw [occ_append]; simp


/-- a statement with an id not seen before, opening a block or being an ordinary statement -/
theorem inv_fresh {pre : List Stmt} {s : St} (h : Inv pre s) (st : Stmt)
    (hf : lookupFirst s.first st.id = none) (stack' : List (Int × Nat))
    (hstack : ∀ bid p, (bid, p) ∈ stack' →
      (bid, p) ∈ s.stack ∨ (bid = st.id ∧ p = pre.length ∧ st.kind = Kind.start))
    (hnd : (stack'.map (fun e => e.1)).Nodup) :
    Inv (pre ++ [st])
      { n := s.n + 1, first := s.first ++ [(st.id, s.n, st.kind)], ranges := s.ranges, stack := stack' } := by
  have hocc : occ pre st.id = [] := (h.firstNone st.id).1 hf
  refine ⟨by simp [h.n], ?_, ?_, ?_, ?_, ?_, ?_, hnd⟩
  · intro id
    by_cases hid : st.id = id
    · subst hid
      have := lookupFirst_append_none s.first (st.id, s.n, st.kind) hf
      simp only at this
      rw [this, occ_eq]; simp
    · rw [lookupFirst_append_ne _ _ _ hid, occ_ne hid]; exact h.firstNone id
  · intro id i k hl
    by_cases hid : st.id = id
    · subst hid
      have := lookupFirst_append_none s.first (st.id, s.n, st.kind) hf
      simp only at this
      rw [this] at hl
      simp only [Option.some.injEq, Prod.mk.injEq] at hl
      obtain ⟨rfl, rfl⟩ := hl
      rw [occ_eq, hocc, h.n]
      exact ⟨⟨[], by simp⟩, by simp⟩
    · rw [lookupFirst_append_ne _ _ _ hid] at hl
      obtain ⟨a, b⟩ := h.firstSome id i k hl
      rw [occ_ne hid]
      exact ⟨a, get_append_some b⟩
  · intro bid p hm
    rcases hstack bid p hm with hm | ⟨rfl, rfl, hk⟩
    · obtain ⟨a, b⟩ := h.stack bid p hm
      have hid : st.id ≠ bid := by
        intro e; rw [← e, hocc] at a; exact absurd a (by simp)
      rw [occ_ne hid]
      exact ⟨a, get_append_some b⟩
    · rw [occ_eq, hocc]
      refine ⟨by simp, ?_⟩
      rw [get_append_last]
      cases st with
      | mk k i => simp only at hk; subst hk; rfl
  · intro id p q hl
    obtain ⟨a, b, c⟩ := h.range id p q hl
    have hid : st.id ≠ id := by
      intro e; rw [← e, hocc] at a; exact absurd a (by simp)
    rw [occ_ne hid]
    exact ⟨a, get_append_some b, get_append_some c⟩
  · intro id
    by_cases hid : st.id = id
    · subst hid; rw [occ_eq, hocc]; simp
    · rw [occ_ne hid]; exact h.two id
  · intro id p q ho
    by_cases hid : st.id = id
    · subst hid; rw [occ_eq, hocc] at ho; simp at ho
    · rw [occ_ne hid] at ho; exact h.closed id p q ho


/-- a `block_end` whose id was first seen on a `block_start` that is on top of the stack -/
theorem inv_close {pre : List Stmt} {s : St} (h : Inv pre s) (st : Stmt) (hk : st.kind = Kind.fin)
    {i : Nat} {k0 : Kind} (hf : lookupFirst s.first st.id = some (i, k0))
    {p : Nat} {rest : List (Int × Nat)} (hs : s.stack = (st.id, p) :: rest) :
    Inv (pre ++ [st])
      { n := s.n + 1, first := s.first, ranges := (st.id, p, s.n) :: s.ranges, stack := rest } := by
  obtain ⟨hocc, hp⟩ := h.stack st.id p (by rw [hs]; simp)
  have hnd := h.nodup
  rw [hs] at hnd
  simp only [List.map_cons, List.nodup_cons] at hnd
  have hst : st = ⟨Kind.fin, st.id⟩ := by cases st with | mk k i => simp only at hk; subst hk; rfl
  refine ⟨by simp [h.n], ?_, ?_, ?_, ?_, ?_, ?_, hnd.2⟩
  · intro id
    by_cases hid : st.id = id
    · subst hid; rw [hf, occ_eq, hocc]; simp
    · rw [occ_ne hid]; exact h.firstNone id
  · intro id i' k hl
    by_cases hid : st.id = id
    · subst hid
      obtain ⟨⟨t, ht⟩, b⟩ := h.firstSome st.id i' k hl
      rw [occ_eq, ht]
      exact ⟨⟨t ++ [pre.length], by simp⟩, get_append_some b⟩
    · obtain ⟨a, b⟩ := h.firstSome id i' k hl
      rw [occ_ne hid]
      exact ⟨a, get_append_some b⟩
  · intro bid p' hm
    have hm' : (bid, p') ∈ s.stack := by rw [hs]; exact List.mem_cons_of_mem _ hm
    obtain ⟨a, b⟩ := h.stack bid p' hm'
    have hid : st.id ≠ bid := by
      intro e
      apply hnd.1
      rw [e]
      exact List.mem_map.2 ⟨(bid, p'), hm, rfl⟩
    rw [occ_ne hid]
    exact ⟨a, get_append_some b⟩
  · intro id p' q' hl
    by_cases hid : st.id = id
    · subst hid
      rw [lookupRange_cons_eq] at hl
      simp only [Option.some.injEq, Prod.mk.injEq] at hl
      obtain ⟨rfl, rfl⟩ := hl
      rw [occ_eq, hocc, h.n]
      refine ⟨by simp, get_append_some hp, ?_⟩
      rw [get_append_last]; exact congrArg some hst
    · rw [lookupRange_cons_ne _ _ _ hid] at hl
      obtain ⟨a, b, c⟩ := h.range id p' q' hl
      rw [occ_ne hid]
      exact ⟨a, get_append_some b, get_append_some c⟩
  · intro id
    by_cases hid : st.id = id
    · subst hid; rw [occ_eq, hocc]; simp
    · rw [occ_ne hid]; exact h.two id
  · intro id p' q' ho
    by_cases hid : st.id = id
    · subst hid
      rw [occ_eq, hocc] at ho
      simp only [List.cons_append, List.nil_append, List.cons.injEq, and_true] at ho
      obtain ⟨rfl, rfl⟩ := ho
      rw [lookupRange_cons_eq, h.n]
    · rw [occ_ne hid] at ho
      rw [lookupRange_cons_ne _ _ _ hid]
      exact h.closed id p' q' ho


theorem consume_inv {pre : List Stmt} {s s' : St} (h : Inv pre s) (st : Stmt)
    (hc : consume s st = .ok s') : Inv (pre ++ [st]) s' := by
  unfold consume at hc
  cases hf : lookupFirst s.first st.id with
  | none =>
    have hocc : occ pre st.id = [] := (h.firstNone st.id).1 hf
    simp only [hf] at hc
    cases hk : st.kind with
    | start =>
      simp only [hk, Except.ok.injEq] at hc
      subst hc
      have := inv_fresh h st hf ((st.id, s.n) :: s.stack) (by
        intro bid p hm
        rcases List.mem_cons.1 hm with e | hm
        · simp only [Prod.mk.injEq] at e
          exact Or.inr ⟨e.1, by rw [e.2, h.n], hk⟩
        · exact Or.inl hm) (by
        simp only [List.map_cons, List.nodup_cons]
        refine ⟨?_, h.nodup⟩
        intro hm
        obtain ⟨⟨bid, p⟩, hm, e⟩ := List.mem_map.1 hm
        simp only at e
        have := (h.stack bid p hm).1
        rw [e, hocc] at this; exact absurd this (by simp))
      rw [hk] at this; exact this
    | other =>
      simp only [hk, Except.ok.injEq] at hc
      subst hc
      have := inv_fresh h st hf s.stack (fun bid p hm => Or.inl hm) h.nodup
      rw [hk] at this; exact this
    | fin =>
      simp only [hk] at hc
      cases hs : s.stack with
      | nil => simp [hs] at hc
      | cons top rest =>
        obtain ⟨bid, p⟩ := top
        simp only [hs] at hc
        by_cases hb : bid = st.id
        · subst hb
          have := (h.stack st.id p (by rw [hs]; simp)).1
          rw [hocc] at this; exact absurd this (by simp)
        · simp [hb] at hc
  | some e =>
    obtain ⟨i, k0⟩ := e
    simp only [hf] at hc
    by_cases hcond : k0 = Kind.start ∧ st.kind = Kind.fin
    · simp only [hcond, and_self, if_true] at hc
      have hk := hcond.2
      try simp only [hk] at hc
      cases hs : s.stack with
      | nil => simp [hs] at hc
      | cons top rest =>
        obtain ⟨bid, p⟩ := top
        simp only [hs] at hc
        by_cases hb : bid = st.id
        · subst hb
          simp only [ne_eq, not_true_eq_false, if_false, Except.ok.injEq] at hc
          subst hc
          exact inv_close h st hk hf hs
        · simp [hb] at hc
    · simp [hcond] at hc

theorem consumeAll_inv (rest : List Stmt) :
    ∀ (pre : List Stmt) (s s' : St), Inv pre s → consumeAll s rest = .ok s' → Inv (pre ++ rest) s' := by
  induction rest with
  | nil =>
    intro pre s s' h hc
    simp only [consumeAll, Except.ok.injEq] at hc
    subst hc; simpa using h
  | cons st rest ih =>
    intro pre s s' h hc
    simp only [consumeAll] at hc
    cases h1 : consume s st with
    | error e => simp [h1] at hc
    | ok s1 =>
      simp only [h1] at hc
      have := ih (pre ++ [st]) s1 s' (consume_inv h st h1) hc
      simpa using this

theorem build_inv {stmts : List Stmt} {s : St} (h : build stmts = .ok s) :
    Inv stmts s ∧ s.stack = [] := by
  unfold build at h
  cases hc : consumeAll St.init stmts with
  | error e => simp [hc] at h
  | ok s1 =>
    simp only [hc] at h
    by_cases he : s1.stack.isEmpty = true
    · simp only [he, if_true, Except.ok.injEq] at h
      subst h
      have := consumeAll_inv stmts [] St.init s1 inv_init hc
      exact ⟨by simpa using this, by simpa using he⟩
    · simp [he] at h


theorem occFrom_ge {l : List Stmt} {id : Int} : ∀ {s x : Nat}, x ∈ occFrom s l id → s ≤ x := by
  induction l with
  | nil => intro s x h; simp [occFrom] at h
  | cons st rest ih =>
    intro s x h
    simp only [occFrom] at h
    by_cases hid : st.id = id
    · simp only [hid, if_true, List.mem_cons] at h
      rcases h with rfl | h
      · exact Nat.le_refl _
      · have := ih h; omega
    · simp only [hid, if_false] at h
      have := ih h; omega

theorem occFrom_sorted (l : List Stmt) (id : Int) : ∀ s, (occFrom s l id).Pairwise (· < ·) := by
  induction l with
  | nil => intro s; simp [occFrom]
  | cons st rest ih =>
    intro s
    simp only [occFrom]
    by_cases hid : st.id = id
    · simp only [hid, if_true, List.pairwise_cons]
      exact ⟨fun x hx => by have := occFrom_ge hx; omega, ih (s + 1)⟩
    · simp only [hid, if_false]; exact ih (s + 1)

theorem occ_pair_lt {l : List Stmt} {id : Int} {p q : Nat} (h : occ l id = [p, q]) : p < q := by
  have := occFrom_sorted l id 0
  unfold occ at h
  rw [h] at this
  simpa using this

end LianVerif.BlockView
