/-
Proofs/PyStrLit.lean — lemmas about the literal model: `repr` followed by lexing is the identity;
the text `repr(s1) op repr(s2)` evaluates to Python's `s1 op s2` on the data.  Core Lean only.
-/
import LianVerif.Spec.PyStrLit

namespace LianVerif.PyStrLit

/-- a Python `str`: every code point below 0x110000. -/
def Valid (s : Str) : Prop := ∀ c ∈ s, c < 0x110000

theorem lexBody_plain (q c : Ch) (t : Str) (h1 : c ≠ q) (h2 : c ≠ 10) (h3 : c ≠ 13) (h4 : c ≠ 92) :
    lexBody q false (c :: t) = consR c (lexBody q false t) := by
  rw [lexBody.eq_def]
  simp only [h1, h2, h3, h4, if_false, or_self]

theorem lexBody_close (q : Ch) (t : Str) : lexBody q false (q :: t) = .ok ([], t) := by
  rw [lexBody.eq_def]; simp

theorem lexBody_escSelf (q e : Ch) (t : Str) (hq : q = 34 ∨ q = 39) (he : e = 92 ∨ e = 39 ∨ e = 34) :
    lexBody q false (92 :: e :: t) = consR e (lexBody q false t) := by
  rw [lexBody.eq_def]
  have h1 : (92 : Nat) ≠ q := by rcases hq with rfl | rfl <;> decide
  simp only [h1, if_false]
  simp only [he, if_true]
  simp


theorem hexVal_hexDigit : ∀ d, d < 16 → hexVal (hexDigit d) = some d := by decide

theorem lexBody_escLetter (q e r : Ch) (t : Str) (hq : q = 34 ∨ q = 39)
    (he : (e = 110 ∧ r = 10) ∨ (e = 114 ∧ r = 13) ∨ (e = 116 ∧ r = 9)) :
    lexBody q false (92 :: e :: t) = consR r (lexBody q false t) := by
  rw [lexBody.eq_def]
  have h1 : (92 : Nat) ≠ q := by rcases hq with rfl | rfl <;> decide
  simp only [h1, if_false]
  rcases he with ⟨rfl, rfl⟩ | ⟨rfl, rfl⟩ | ⟨rfl, rfl⟩ <;> simp

theorem hexEsc2 (n : Nat) (h : n < 256) : hexEsc (hex2 n) = .ok n := by
  unfold hexEsc hex2
  simp only [List.foldl, hexAcc]
  rw [hexVal_hexDigit _ (by omega), hexVal_hexDigit _ (by omega)]
  simp only [scalar]
  have : (0 * 16 + n / 16 % 16) * 16 + n % 16 = n := by omega
  rw [this]; simp; omega

theorem hexEsc4 (n : Nat) (h : n < 65536) : hexEsc (hex4 n) = .ok n := by
  unfold hexEsc hex4
  simp only [List.foldl, hexAcc]
  rw [hexVal_hexDigit _ (by omega), hexVal_hexDigit _ (by omega), hexVal_hexDigit _ (by omega), hexVal_hexDigit _ (by omega)]
  simp only [scalar]
  have : (((0 * 16 + n / 4096 % 16) * 16 + n / 256 % 16) * 16 + n / 16 % 16) * 16 + n % 16 = n := by omega
  rw [this]; simp; omega

theorem hexEsc8 (n : Nat) (h : n < 0x110000) : hexEsc (hex8 n) = .ok n := by
  unfold hexEsc hex8
  simp only [List.foldl, hexAcc]
  rw [hexVal_hexDigit _ (by omega), hexVal_hexDigit _ (by omega), hexVal_hexDigit _ (by omega), hexVal_hexDigit _ (by omega),
      hexVal_hexDigit _ (by omega), hexVal_hexDigit _ (by omega), hexVal_hexDigit _ (by omega), hexVal_hexDigit _ (by omega)]
  simp only [scalar]
  have : (((((((0 * 16 + n / 268435456 % 16) * 16 + n / 16777216 % 16) * 16 + n / 1048576 % 16) * 16 + n / 65536 % 16) * 16 + n / 4096 % 16) * 16 + n / 256 % 16) * 16 + n / 16 % 16) * 16 + n % 16 = n := by omega
  rw [this]; simp; omega
theorem lexBody_x (q : Ch) (a b : Ch) (t : Str) (hq : q = 34 ∨ q = 39) :
    lexBody q false (92 :: 120 :: a :: b :: t) = (hexEsc [a, b]).bind (fun ch => consR ch (lexBody q false t)) := by
  rw [lexBody.eq_def]
  have h1 : (92 : Nat) ≠ q := by rcases hq with rfl | rfl <;> decide
  simp only [h1, if_false]
  simp

theorem lexBody_u (q : Ch) (a b c d : Ch) (t : Str) (hq : q = 34 ∨ q = 39) :
    lexBody q false (92 :: 117 :: a :: b :: c :: d :: t) =
      (hexEsc [a, b, c, d]).bind (fun ch => consR ch (lexBody q false t)) := by
  rw [lexBody.eq_def]
  have h1 : (92 : Nat) ≠ q := by rcases hq with rfl | rfl <;> decide
  simp only [h1, if_false]
  simp

theorem lexBody_U (q : Ch) (a b c d a' b' c' d' : Ch) (t : Str) (hq : q = 34 ∨ q = 39) :
    lexBody q false (92 :: 85 :: a :: b :: c :: d :: a' :: b' :: c' :: d' :: t) =
      (hexEsc [a, b, c, d, a', b', c', d']).bind (fun ch => consR ch (lexBody q false t)) := by
  rw [lexBody.eq_def]
  have h1 : (92 : Nat) ≠ q := by rcases hq with rfl | rfl <;> decide
  simp only [h1, if_false]
  simp

/-- one `repr`-escaped character is read back as that character. -/
theorem lexBody_reprChar (P : Ch → Bool) (q c : Ch) (t : Str) (hq : q = 34 ∨ q = 39) (hc : c < 0x110000) :
    lexBody q false (reprChar P q c ++ t) = consR c (lexBody q false t) := by
  unfold reprChar
  split
  · rename_i h
    have : c = 92 ∨ c = 39 ∨ c = 34 := by
      rcases h with h | h
      · rcases hq with hq | hq
        · exact Or.inr (Or.inr (h.trans hq))
        · exact Or.inr (Or.inl (h.trans hq))
      · exact Or.inl h
    exact lexBody_escSelf q c t hq this
  · rename_i h
    have hcq : c ≠ q := fun e => h (Or.inl e)
    have hc92 : c ≠ 92 := fun e => h (Or.inr e)
    split
    · rename_i h10; subst h10
      exact lexBody_escLetter q 110 10 t hq (Or.inl ⟨rfl, rfl⟩)
    · rename_i h10
      split
      · rename_i h13; subst h13
        exact lexBody_escLetter q 114 13 t hq (Or.inr (Or.inl ⟨rfl, rfl⟩))
      · rename_i h13
        split
        · rename_i h9; subst h9
          exact lexBody_escLetter q 116 9 t hq (Or.inr (Or.inr ⟨rfl, rfl⟩))
        · split
          · exact lexBody_plain q c t hcq h10 h13 hc92
          · split
            · rename_i h256
              show lexBody q false (92 :: 120 :: (hex2 c ++ t)) = _
              unfold hex2
              simp only [List.cons_append, List.nil_append]
              rw [lexBody_x q _ _ t hq]
              have := hexEsc2 c h256
              unfold hex2 at this
              rw [this]; rfl
            · split
              · rename_i h65536
                show lexBody q false (92 :: 117 :: (hex4 c ++ t)) = _
                unfold hex4
                simp only [List.cons_append, List.nil_append]
                rw [lexBody_u q _ _ _ _ t hq]
                have := hexEsc4 c h65536
                unfold hex4 at this
                rw [this]; rfl
              · show lexBody q false (92 :: 85 :: (hex8 c ++ t)) = _
                unfold hex8
                simp only [List.cons_append, List.nil_append]
                rw [lexBody_U q _ _ _ _ _ _ _ _ t hq]
                have := hexEsc8 c hc
                unfold hex8 at this
                rw [this]; rfl

/-- **repr round trip (body).** Lexing the `repr`-escaped text of `s` up to the closing quote gives back `s`. -/
theorem lexBody_reprBody (P : Ch → Bool) (q : Ch) (hq : q = 34 ∨ q = 39) :
    ∀ (s rest : Str), Valid s → lexBody q false (reprBody P q s ++ q :: rest) = .ok (s, rest) := by
  intro s
  induction s with
  | nil => intro rest _; exact lexBody_close q rest
  | cons c cs ih =>
    intro rest hv
    have hc : c < 0x110000 := hv c (List.mem_cons_self ..)
    have hcs : Valid cs := fun x hx => hv x (List.mem_cons_of_mem _ hx)
    show lexBody q false ((reprChar P q c ++ reprBody P q cs) ++ q :: rest) = _
    rw [List.append_assoc, lexBody_reprChar P q c _ hq hc, ih rest hcs]
    rfl


theorem reprQuote_cases (s : Str) : reprQuote s = 34 ∨ reprQuote s = 39 := by
  unfold reprQuote; split <;> simp

/-- the escaped text of a non-empty string never starts with the (unescaped) quote. -/
theorem reprBody_head (P : Ch → Bool) (q : Ch) (hq : q = 34 ∨ q = 39) (c : Ch) (cs rest : Str) :
    ∃ a t, reprBody P q (c :: cs) ++ rest = a :: t ∧ a ≠ q := by
  have h92 : (92 : Nat) ≠ q := by rcases hq with rfl | rfl <;> decide
  show ∃ a t, (reprChar P q c ++ reprBody P q cs) ++ rest = a :: t ∧ a ≠ q
  unfold reprChar
  split
  · exact ⟨92, _, rfl, h92⟩
  · rename_i h
    have hcq : c ≠ q := fun e => h (Or.inl e)
    split
    · exact ⟨92, _, rfl, h92⟩
    · split
      · exact ⟨92, _, rfl, h92⟩
      · split
        · exact ⟨92, _, rfl, h92⟩
        · split
          · exact ⟨c, _, rfl, hcq⟩
          · split
            · exact ⟨92, _, rfl, h92⟩
            · split
              · exact ⟨92, _, rfl, h92⟩
              · exact ⟨92, _, rfl, h92⟩

theorem lexString_of_head_ne (q a : Ch) (t : Str) (ha : a ≠ q) :
    lexString q (a :: t) = lexBody q false (a :: t) := by
  unfold lexString
  cases t with
  | nil => rfl
  | cons b t' => simp [ha]

/-- **repr round trip.** After the opening quote, the rest of `repr s` (followed by anything) lexes to `s`. -/
theorem lexString_repr (P : Ch → Bool) (s rest : Str) (hne : s ≠ []) (hv : Valid s) :
    lexString (reprQuote s) (reprBody P (reprQuote s) s ++ reprQuote s :: rest) = .ok (s, rest) := by
  have hq := reprQuote_cases s
  cases s with
  | nil => exact absurd rfl hne
  | cons c cs =>
    obtain ⟨a, t, hat, ha⟩ := reprBody_head P (reprQuote (c :: cs)) hq c cs (reprQuote (c :: cs) :: rest)
    rw [hat, lexString_of_head_ne _ a t ha, ← hat]
    exact lexBody_reprBody P _ hq (c :: cs) rest hv

theorem tokenize_space (f : Nat) (rest : Str) : tokenize (f + 1) (32 :: rest) = tokenize f rest := by
  rw [tokenize.eq_def]; simp

theorem tokenize_op (o : Op) (f : Nat) (rest : Str) :
    tokenize (f + 1) (o.text ++ 32 :: rest) = (tokenize f (32 :: rest)).map (Tok.op o :: ·) := by
  cases o <;> (rw [tokenize.eq_def]; simp [Op.text, isDigit])

theorem tokenize_quote (f : Nat) (q : Ch) (hq : q = 34 ∨ q = 39) (rest : Str) :
    tokenize (f + 1) (q :: rest) =
      (lexString q rest).bind (fun p => (tokenize f p.2).map (fun ts => Tok.str p.1 :: ts)) := by
  rw [tokenize.eq_def]
  rcases hq with rfl | rfl <;> simp

theorem tokenize_nil (f : Nat) : tokenize f [] = .ok [] := by
  rw [tokenize.eq_def]

theorem parse_str_op_str (o : Op) (s1 s2 : Str) :
    parseExpr 16 0 [Tok.str s1, Tok.op o, Tok.str s2] = .ok (.bin o (.lit (.str s1)) (.lit (.str s2)), []) := by
  cases o <;> rfl

/-- the text `compute_two_states` builds from two string operands after the `repr` fix. -/
def strText (P : Ch → Bool) (o : Op) (s1 s2 : Str) : Str :=
  pyRepr P s1 ++ ((32 :: (o.text ++ [32])) ++ pyRepr P s2)

theorem tokenize_strText (P : Ch → Bool) (o : Op) (s1 s2 : Str) (h1 : s1 ≠ []) (h2 : s2 ≠ [])
    (v1 : Valid s1) (v2 : Valid s2) (n : Nat) :
    tokenize (n + 5) (strText P o s1 s2) = .ok [Tok.str s1, Tok.op o, Tok.str s2] := by
  unfold strText pyRepr
  simp only [List.cons_append, List.append_assoc, List.nil_append]
  rw [tokenize_quote _ _ (reprQuote_cases s1), lexString_repr P s1 _ h1 v1]
  simp only [R.bind]
  rw [tokenize_space, tokenize_op, tokenize_space, tokenize_quote _ _ (reprQuote_cases s2)]
  have := lexString_repr P s2 [] h2 v2
  rw [this]
  simp only [R.bind, R.map, tokenize_nil]

/-- **the evaluated text means the operator applied to the data.** -/
theorem pyEval_strText (P : Ch → Bool) (o : Op) (s1 s2 : Str) (h1 : s1 ≠ []) (h2 : s2 ≠ [])
    (v1 : Valid s1) (v2 : Valid s2) :
    pyEval (strText P o s1 s2) = pyBinop o (.str s1) (.str s2) := by
  unfold pyEval
  have hlen : ∃ n, (strText P o s1 s2).length + 1 = n + 5 := by
    refine ⟨(strText P o s1 s2).length - 4, ?_⟩
    have : 4 ≤ (strText P o s1 s2).length := by
      unfold strText pyRepr
      simp only [List.length_append, List.length_cons, List.length_nil]
      omega
    omega
  obtain ⟨n, hn⟩ := hlen
  rw [hn, tokenize_strText P o s1 s2 h1 h2 v1 v2 n]
  simp only [R.bind, List.length_cons, List.length_nil]
  rw [show 4 * (0 + 1 + 1 + 1) + 4 = 16 from rfl, parse_str_op_str]
  simp only [evalExpr, R.bind]


/-- no double quote, backslash or line break. -/
def Plain (s : Str) : Prop := ∀ c ∈ s, c ≠ 34 ∧ c ≠ 92 ∧ c ≠ 10 ∧ c ≠ 13

theorem lexBody_plainStr : ∀ (s rest : Str), Plain s → lexBody 34 false (s ++ 34 :: rest) = .ok (s, rest) := by
  intro s
  induction s with
  | nil => intro rest _; exact lexBody_close 34 rest
  | cons c cs ih =>
    intro rest hp
    obtain ⟨h1, h2, h3, h4⟩ := hp c (List.mem_cons_self ..)
    have hcs : Plain cs := fun x hx => hp x (List.mem_cons_of_mem _ hx)
    show lexBody 34 false (c :: (cs ++ 34 :: rest)) = _
    rw [lexBody_plain 34 c _ h1 h3 h4 h2, ih rest hcs]; rfl

theorem lexString_plainStr (s rest : Str) (hne : s ≠ []) (hp : Plain s) :
    lexString 34 (s ++ 34 :: rest) = .ok (s, rest) := by
  cases s with
  | nil => exact absurd rfl hne
  | cons c cs =>
    have hc : c ≠ 34 := (hp c (List.mem_cons_self ..)).1
    show lexString 34 (c :: (cs ++ 34 :: rest)) = _
    rw [lexString_of_head_ne 34 c _ hc]
    exact lexBody_plainStr (c :: cs) rest hp

/-- the text the pinned `compute_two_states` builds from two string operands: `"s1" op "s2"`. -/
def strText0 (o : Op) (s1 s2 : Str) : Str :=
  (34 :: (s1 ++ [34])) ++ ((32 :: (o.text ++ [32])) ++ (34 :: (s2 ++ [34])))

theorem tokenize_strText0 (o : Op) (s1 s2 : Str) (h1 : s1 ≠ []) (h2 : s2 ≠ [])
    (p1 : Plain s1) (p2 : Plain s2) (n : Nat) :
    tokenize (n + 5) (strText0 o s1 s2) = .ok [Tok.str s1, Tok.op o, Tok.str s2] := by
  unfold strText0
  simp only [List.cons_append, List.append_assoc, List.nil_append]
  rw [tokenize_quote _ _ (Or.inl rfl), lexString_plainStr s1 _ h1 p1]
  simp only [R.bind]
  rw [tokenize_space, tokenize_op, tokenize_space, tokenize_quote _ _ (Or.inl rfl)]
  have := lexString_plainStr s2 [] h2 p2
  rw [this]
  simp only [R.bind, R.map, tokenize_nil]

theorem pyEval_strText0 (o : Op) (s1 s2 : Str) (h1 : s1 ≠ []) (h2 : s2 ≠ [])
    (p1 : Plain s1) (p2 : Plain s2) :
    pyEval (strText0 o s1 s2) = pyBinop o (.str s1) (.str s2) := by
  unfold pyEval
  have hlen : ∃ n, (strText0 o s1 s2).length + 1 = n + 5 := by
    refine ⟨(strText0 o s1 s2).length - 4, ?_⟩
    have : 4 ≤ (strText0 o s1 s2).length := by
      unfold strText0
      simp only [List.length_append, List.length_cons, List.length_nil]
      omega
    omega
  obtain ⟨n, hn⟩ := hlen
  rw [hn, tokenize_strText0 o s1 s2 h1 h2 p1 p2 n]
  simp only [R.bind, List.length_cons, List.length_nil]
  rw [show 4 * (0 + 1 + 1 + 1) + 4 = 16 from rfl, parse_str_op_str]
  simp only [evalExpr, R.bind]

/-! ### decimal integers: printing followed by lexing is the identity; the text `(a) op (b)` -/

theorem valRev_natDigitsRev : ∀ (fuel n : Nat), n < fuel → valRev (natDigitsRev fuel n) = n := by
  intro fuel
  induction fuel with
  | zero => intro n h; omega
  | succ f ih =>
    intro n h
    simp only [natDigitsRev]
    split
    · simp only [valRev]; omega
    · rename_i h10
      simp only [valRev]
      rw [ih (n / 10) (by omega)]
      omega

theorem isDigit_natDigitsRev : ∀ (fuel n : Nat), ∀ c ∈ natDigitsRev fuel n, isDigit c = true := by
  intro fuel
  induction fuel with
  | zero => intro n c h; simp [natDigitsRev] at h
  | succ f ih =>
    intro n c h
    simp only [natDigitsRev] at h
    split at h
    · rename_i h10
      rw [List.mem_singleton] at h; subst h
      simp only [isDigit, Bool.and_eq_true, decide_eq_true_eq]
      have : (48 : Nat) ≤ 48 + n ∧ 48 + n ≤ 57 := by omega
      exact this
    · rcases List.mem_cons.1 h with rfl | h
      · simp only [isDigit, Bool.and_eq_true, decide_eq_true_eq]
        have : (48 : Nat) ≤ 48 + n % 10 ∧ 48 + n % 10 ≤ 57 := by omega
        exact this
      · exact ih _ c h

theorem natDigitsRev_ne_nil (fuel n : Nat) : natDigitsRev (fuel + 1) n ≠ [] := by
  simp only [natDigitsRev]; split <;> simp

/-- the most significant digit is 0 only for the number 0 (printed as the single digit "0"). -/
theorem getLast_natDigitsRev : ∀ (fuel n : Nat), n < fuel → ∀ d, (natDigitsRev fuel n).getLast? = some d →
    d = 48 → natDigitsRev fuel n = [48] := by
  intro fuel
  induction fuel with
  | zero => intro n h; omega
  | succ f ih =>
    intro n h d hd h48
    simp only [natDigitsRev] at hd ⊢
    split
    · rename_i h10
      simp only [h10, if_true, List.getLast?_singleton, Option.some.injEq] at hd
      subst h48
      have : n = 0 := by omega
      subst this; rfl
    · rename_i h10
      simp only [h10, if_false] at hd
      cases f with
      | zero => omega
      | succ f' =>
        have hne := natDigitsRev_ne_nil f' (n / 10)
        rw [List.getLast?_cons_of_ne_nil hne] at hd  
        have := ih (n / 10) (by omega) d hd h48
        -- the higher digits are [48], i.e. n / 10 = 0: impossible for n ≥ 10
        have hv := valRev_natDigitsRev (f' + 1) (n / 10) (by omega)
        rw [this] at hv
        simp [valRev] at hv
        omega
theorem spanDigits_append : ∀ (ds rest : Str), (∀ c ∈ ds, isDigit c = true) →
    (∀ r rs, rest = r :: rs → isDigit r = false) → spanDigits (ds ++ rest) = (ds, rest) := by
  intro ds
  induction ds with
  | nil =>
    intro rest _ hr
    cases rest with
    | nil => rfl
    | cons r rs => simp [spanDigits, hr r rs rfl]
  | cons d ds ih =>
    intro rest hd hr
    have h1 : isDigit d = true := hd d (List.mem_cons_self ..)
    have := ih rest (fun c hc => hd c (List.mem_cons_of_mem _ hc)) hr
    simp [spanDigits, h1, this]

theorem natDigits_digits (n : Nat) : ∀ c ∈ natDigits n, isDigit c = true := by
  intro c hc
  unfold natDigits at hc
  exact isDigit_natDigitsRev _ _ c (List.mem_reverse.1 hc)

theorem natDigits_val (n : Nat) : valRev (natDigits n).reverse = n := by
  unfold natDigits
  rw [List.reverse_reverse]
  exact valRev_natDigitsRev _ _ (by omega)

theorem natDigits_cons (n : Nat) : ∃ c cs, natDigits n = c :: cs ∧ (c = 48 → cs = []) := by
  unfold natDigits
  have hne := natDigitsRev_ne_nil n n
  cases hr : (natDigitsRev (n + 1) n).reverse with
  | nil => simp at hr; exact absurd hr hne
  | cons c cs =>
    refine ⟨c, cs, rfl, ?_⟩
    intro h48
    have hlast : (natDigitsRev (n + 1) n).getLast? = some c := by
      have := congrArg List.head? hr
      simpa [List.head?_reverse] using this
    have := getLast_natDigitsRev (n + 1) n (by omega) c hlast h48
    rw [this] at hr
    simp at hr
    exact hr.2

/-- a decimal number followed by `)` is one number token. -/
theorem tokenize_num (n f : Nat) (tail : Str) :
    tokenize (f + 1) (natDigits n ++ 41 :: tail) = (tokenize f (41 :: tail)).map (Tok.num n :: ·) := by
  obtain ⟨c, cs, hcs, h0⟩ := natDigits_cons n
  have hdig := natDigits_digits n
  have hval := natDigits_val n
  rw [hcs] at hdig hval ⊢
  have hc : isDigit c = true := hdig c (List.mem_cons_self ..)
  have hrange : (48 : Nat) ≤ c ∧ c ≤ 57 := by
    simp only [isDigit, Bool.and_eq_true, decide_eq_true_eq] at hc; exact hc
  have hspan : spanDigits (c :: (cs ++ 41 :: tail)) = (c :: cs, 41 :: tail) := by
    have := spanDigits_append (c :: cs) (41 :: tail) hdig (by
      intro r rs h; cases h; rfl)
    simpa using this
  have hlead : ¬ (c = 48 ∧ (c :: cs).length > 1 ∧ ¬ ((c :: cs).all (· == 48)) = true) := by
    rintro ⟨h48, hlen, _⟩
    rw [h0 h48] at hlen
    simp at hlen
  show tokenize (f + 1) (c :: (cs ++ 41 :: tail)) = _
  rw [tokenize.eq_def]
  have n1 : ¬ (c = 32 ∨ c = 9) := by omega
  have n2 : ¬ c = 35 := by omega
  have n3 : ¬ (c = 34 ∨ c = 39) := by omega
  simp only [n1, n2, n3, if_false, hc, if_true, hspan]
  simp only [gluedNext, isIdentChar, isDigit]
  simp only [hlead, if_false]
  have hval' : valRev (cs.reverse ++ [c]) = n := by simpa using hval
  simp [hval']

theorem tokenize_lpar (f : Nat) (r : Str) : tokenize (f + 1) (40 :: r) = (tokenize f r).map (Tok.lpar :: ·) := by
  rw [tokenize.eq_def]; simp [isDigit]

theorem tokenize_rpar (f : Nat) (r : Str) : tokenize (f + 1) (41 :: r) = (tokenize f r).map (Tok.rpar :: ·) := by
  rw [tokenize.eq_def]; simp [isDigit]

theorem tokenize_minus_digit (f n : Nat) (r : Str) :
    tokenize (f + 1) (45 :: (natDigits n ++ r)) = (tokenize f (natDigits n ++ r)).map (Tok.op .sub :: ·) := by
  obtain ⟨c, cs, hcs, _⟩ := natDigits_cons n
  have hc : isDigit c = true := natDigits_digits n c (by rw [hcs]; exact List.mem_cons_self ..)
  have hrange : (48 : Nat) ≤ c ∧ c ≤ 57 := by
    simp only [isDigit, Bool.and_eq_true, decide_eq_true_eq] at hc; exact hc
  rw [hcs]
  show tokenize (f + 1) (45 :: c :: (cs ++ r)) = _
  rw [tokenize.eq_def]
  have n1 : ¬ c = 61 := by omega
  have n2 : ¬ c = 62 := by omega
  simp [isDigit, n1, n2]

/-- the tokens of `str(a)`. -/
def intToks (a : Int) : List Tok := if a < 0 then [Tok.op .sub, Tok.num a.natAbs] else [Tok.num a.natAbs]

/-- tokeniser steps `(str(a))` needs. -/
def need (a : Int) : Nat := if a < 0 then 4 else 3

theorem natDigits_length_pos (n : Nat) : 0 < (natDigits n).length := by
  obtain ⟨c, cs, hcs, _⟩ := natDigits_cons n
  rw [hcs]; simp

/-- `(str(a))` followed by text that tokenises to `ts`. -/
theorem tokenize_paren_int (a : Int) (g : Nat) (rest : Str) (ts : List Tok) (h : tokenize g rest = .ok ts) :
    tokenize (g + need a) (40 :: (intStr a ++ 41 :: rest)) = .ok (Tok.lpar :: (intToks a ++ Tok.rpar :: ts)) := by
  unfold need intStr intToks
  split
  · show tokenize (g + 3 + 1) (40 :: (45 :: natDigits a.natAbs ++ 41 :: rest)) = _
    rw [tokenize_lpar]
    show (tokenize (g + 2 + 1) (45 :: (natDigits a.natAbs ++ 41 :: rest))).map _ = _
    rw [tokenize_minus_digit]
    show ((tokenize (g + 1 + 1) (natDigits a.natAbs ++ 41 :: rest)).map _).map _ = _
    rw [tokenize_num, tokenize_rpar, h]
    rfl
  · show tokenize (g + 2 + 1) (40 :: (natDigits a.natAbs ++ 41 :: rest)) = _
    rw [tokenize_lpar]
    show (tokenize (g + 1 + 1) (natDigits a.natAbs ++ 41 :: rest)).map _ = _
    rw [tokenize_num, tokenize_rpar, h]
    rfl

/-- the text `compute_two_states` builds from two integer operands: `(a) op (b)`. -/
def intText (o : Op) (a b : Int) : Str :=
  (40 :: (intStr a ++ [41])) ++ ((32 :: (o.text ++ [32])) ++ (40 :: (intStr b ++ [41])))

theorem tokenize_intText (o : Op) (a b : Int) (f : Nat) :
    tokenize (f + need b + 3 + need a) (intText o a b) =
      .ok (Tok.lpar :: (intToks a ++ Tok.rpar :: Tok.op o :: Tok.lpar :: (intToks b ++ [Tok.rpar]))) := by
  unfold intText
  simp only [List.cons_append, List.append_assoc, List.nil_append]
  apply tokenize_paren_int
  show tokenize (f + need b + 2 + 1) (32 :: (o.text ++ 32 :: 40 :: (intStr b ++ [41]))) = _
  rw [tokenize_space]
  show tokenize (f + need b + 1 + 1) (o.text ++ 32 :: 40 :: (intStr b ++ [41])) = _
  rw [tokenize_op, tokenize_space]
  have := tokenize_paren_int b f [] [] (tokenize_nil f)
  rw [this]
  rfl

/-- the expression `str(a)` parses to. -/
def intExpr (a : Int) : Expr := if a < 0 then .neg (.lit (.int a.natAbs)) else .lit (.int a.natAbs)

theorem evalExpr_intExpr (a : Int) : evalExpr (intExpr a) = .ok (.int a) := by
  unfold intExpr
  split
  · simp only [evalExpr, R.bind, PyVal.asInt?]
    congr 2; omega
  · simp only [evalExpr]
    congr 2; omega

theorem parse_intText (o : Op) (a b : Int) :
    parseExpr (4 * (Tok.lpar :: (intToks a ++ Tok.rpar :: Tok.op o :: Tok.lpar :: (intToks b ++ [Tok.rpar]))).length + 4) 0
        (Tok.lpar :: (intToks a ++ Tok.rpar :: Tok.op o :: Tok.lpar :: (intToks b ++ [Tok.rpar]))) =
      .ok (.bin o (intExpr a) (intExpr b), []) := by
  unfold intToks intExpr
  split <;> split <;> (cases o <;> rfl)

theorem pyEval_intText (o : Op) (a b : Int) :
    pyEval (intText o a b) = pyBinop o (.int a) (.int b) := by
  unfold pyEval
  have hlen : ∃ f, (intText o a b).length + 1 = f + need b + 3 + need a := by
    refine ⟨(intText o a b).length + 1 - (need b + 3 + need a), ?_⟩
    have ha := natDigits_length_pos a.natAbs
    have hb := natDigits_length_pos b.natAbs
    have hot : 0 < o.text.length := by cases o <;> simp [Op.text]
    unfold intText intStr need
    simp only [List.length_append, List.length_cons, List.length_nil]
    split <;> split <;> (try simp only [List.length_cons]) <;> omega
  obtain ⟨f, hf⟩ := hlen
  rw [hf, tokenize_intText o a b f]
  simp only [R.bind]
  rw [parse_intText]
  simp only [evalExpr, R.bind, evalExpr_intExpr]


end LianVerif.PyStrLit
