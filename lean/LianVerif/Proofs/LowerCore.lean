/-
Proofs/LowerCore.lean — simulation lemmas for the dialect-table lowering model (Model/LowerCore.lean)
on the pure expression fragment and on loop-free statement lists.  Reuses the store lemmas and the
simulation relation of C01 (Proofs/GirStore.lean, Proofs/LowerPy.lean, Proofs/LowerPyStmt.lean).
-/
import LianVerif.Proofs.LowerPyStmt
import LianVerif.Model.LowerCore

namespace LianVerif.LowerCore
open LianVerif.Gir LianVerif.Core
open LianVerif.LowerPy (Sim OpdOK tmp_inj opd_stable sim_after_write exec_assign lookup_heap loc_heap
  Sim2 exec_varDecl exec_pass exec_ret exec_if_normal exec_if_ret step_varDecl declFrame declFrame_globals
  declFrame_nonlocals declFrame_get_ne loc_setFrame lookup_setFrame sim_assign costS costL costL_append Runs
  seq_combine exec_nil truthy_sim loc_congr evalOpd_lit evalOpd_var)

/-! ### the operators of the core language are the operators of the GIR semantics -/

theorem chkInt_ok {n : Int} {v : Val} (h : chkInt n = .ok v) : v = .int n := by
  unfold chkInt at h
  split at h
  · injection h with h; exact h.symm
  · cases h

theorem binCore_binopH (h : List Obj) (d : Dialect) (op : BinOp) (hop : op ≠ .div) (a b v : Val)
    (hc : binCore op a b = .ok v) :
    binopH h (binTok d op) a b = .ok (v, h) := by
  unfold binCore at hc
  split at hc
  · have := chkInt_ok hc; subst this; simp [binopH, binTok, asInt?]
  · have := chkInt_ok hc; subst this; simp [binopH, binTok, asInt?]
  · have := chkInt_ok hc; subst this; simp [binopH, binTok, asInt?]
  · exact absurd rfl hop
  · rename_i x y
    split at hc
    · cases hc
    · rename_i hxy
      injection hc with hc; subst hc
      have hx : 0 ≤ x := by omega
      have hy : 0 < y := by omega
      have hy0 : (y == 0) = false := by simp; omega
      simp [binopH, binTok, asInt?, hy0, Int.fmod_eq_emod_of_nonneg x (Int.le_of_lt hy)]
  · injection hc with hc; subst hc; simp [binopH, binTok, asInt?, cmpInt]
  · injection hc with hc; subst hc; simp [binopH, binTok, asInt?, cmpInt]
  · injection hc with hc; subst hc; simp [binopH, binTok, asInt?, cmpInt]
  · injection hc with hc; subst hc; simp [binopH, binTok, asInt?, cmpInt]
  · injection hc with hc; subst hc; simp [binopH, binTok, asInt?, valEq]
  · injection hc with hc; subst hc; simp [binopH, binTok, asInt?, valEq, bne]
  · injection hc with hc; subst hc; simp [binopH, binTok, asInt?]
  · cases hc

theorem unCore_unopH (h : List Obj) (d : Dialect) (hn : d.notOp = "not" ∨ d.notOp = "!") (op : UnOp) (a v : Val)
    (hc : unCore op a = .ok v) : unopH h (unTok d op) a = .ok v := by
  unfold unCore at hc
  split at hc
  · have := chkInt_ok hc; subst this; simp [unopH, unTok, asInt?]
  · injection hc with hc; subst hc
    rcases hn with hn | hn <;> simp [unopH, unTok, hn, truthyH]
  · cases hc

/-! ### the rows of the dialect table as they are now (no frozen defect) -/

structure Dialect.Ok (d : Dialect) : Prop where
  notOp : d.notOp = "not" ∨ d.notOp = "!"
  rightFirst : d.rightFirst = false
  foldPy : d.foldPySpelling = false
  goOff : d.goOffVocabulary = false
  outName : d.outName = "print" ∨ d.outName = "output"

theorem dialect_ok (l : Lang) : (dialect l false).Ok := by
  cases l <;> exact ⟨by simp [dialect], rfl, rfl, rfl, by simp [dialect]⟩

theorem print_ne_tmp (n : Nat) : "print" ≠ tmp n := by
  intro h
  have h2 := congrArg String.toList h
  simp [tmp, LianVerif.LowerPy.tmp, String.toList_append] at h2

theorem output_ne_tmp (n : Nat) : "output" ≠ tmp n := by
  intro h
  have h2 := congrArg String.toList h
  simp [tmp, LianVerif.LowerPy.tmp, String.toList_append] at h2

theorem outName_ne_tmp (d : Dialect) (hd : d.Ok) (n : Nat) : d.outName ≠ tmp n := by
  rcases hd.outName with h | h <;> rw [h]
  · exact print_ne_tmp n
  · exact output_ne_tmp n

/-! ### the pure fragment -/

/-- no variable of the expression has the form of a lian temporary. -/
def NoTmpE : Expr → Prop
  | .var x => ∀ n, x ≠ tmp n
  | .bin _ l r => NoTmpE l ∧ NoTmpE r
  | .un _ e => NoTmpE e
  | _ => True

/-- evaluating a pure expression leaves the state as it is. -/
theorem evalE_pure_state (fns : List FnDef) : ∀ (fuel : Nat) (e : Expr) (σ σ' : State) (r : Res Val),
    pureE e = true → evalE fns fuel σ e = (r, σ') → σ' = σ := by
  intro fuel
  induction fuel with
  | zero => intro e σ σ' r _ h; simp [evalE] at h; exact h.2.symm
  | succ f ih =>
    intro e σ σ' r hp h
    cases e with
    | int n => simp [evalE] at h; exact h.2.symm
    | bool b => simp [evalE] at h; exact h.2.symm
    | str s => simp [evalE] at h; exact h.2.symm
    | var x => simp [evalE] at h; exact h.2.symm
    | bin op l r =>
      simp only [pureE, Bool.and_eq_true] at hp
      simp only [evalE] at h
      cases h1 : evalE fns f σ l with
      | mk r1 σ1 =>
        have e1 := ih l σ σ1 r1 hp.1.2 h1
        subst e1
        rw [h1] at h
        cases r1 with
        | error er => simp at h; exact h.2.symm
        | ok a =>
          simp only at h
          cases h2 : evalE fns f σ1 r with
          | mk r2 σ2 =>
            have e2 := ih r σ1 σ2 r2 hp.2 h2
            subst e2
            rw [h2] at h
            cases r2 with
            | error er => simp at h; exact h.2.symm
            | ok b => simp at h; exact h.2.symm
    | un op e1 =>
      simp only [pureE] at hp
      simp only [evalE] at h
      cases h1 : evalE fns f σ e1 with
      | mk r1 σ1 =>
        have e1 := ih e1 σ σ1 r1 hp h1
        subst e1
        rw [h1] at h
        cases r1 with
        | error er => simp at h; exact h.2.symm
        | ok a => simp at h; exact h.2.symm
    | and _ _ => simp [pureE] at hp
    | or _ _ => simp [pureE] at hp
    | call _ _ => simp [pureE] at hp
    | idx _ _ => simp [pureE] at hp
    | fld _ _ => simp [pureE] at hp

/-! ### Java's folding agrees with the reference semantics -/

theorem foldOpd_some (d : Dialect) (hf : d.foldPySpelling = false) (tok : String) (l r : Expr) (w : Option Val)
    (o : Opd) (h : foldOpd d tok l r w = some o) : ∃ v', w = some v' ∧ o = .lit v' := by
  unfold foldOpd at h
  split at h
  · rename_i b
    simp only [hf, Bool.false_eq_true, if_false, Option.some.injEq] at h
    exact ⟨.bool b, rfl, h.symm⟩
  · rename_i v' _
    simp only [Option.some.injEq] at h
    exact ⟨v', rfl, h.symm⟩
  · simp [hf] at h

theorem evalE_lit_int (fns : List FnDef) (f : Nat) (σ σ' : State) (x : Int) (v : Val)
    (h : evalE fns f σ (.int x) = (.ok v, σ')) : v = .int x := by
  cases f with
  | zero => simp [evalE] at h
  | succ f => simp [evalE] at h; exact h.1.symm

theorem evalE_lit_str (fns : List FnDef) (f : Nat) (σ σ' : State) (x : String) (v : Val)
    (h : evalE fns f σ (.str x) = (.ok v, σ')) : v = .str x := by
  cases f with
  | zero => simp [evalE] at h
  | succ f => simp [evalE] at h; exact h.1.symm

/-- when Java folds `l op r` to the constant `v'`, the reference semantics gives the same value. -/
theorem foldBin_sound (fns : List FnDef) (f : Nat) (op : BinOp) (l r : Expr) (σ σ1 σ2 : State) (a b v v' : Val)
    (hf : foldBin op l r = some v') (h1 : evalE fns f σ l = (.ok a, σ1)) (h2 : evalE fns f σ1 r = (.ok b, σ2))
    (hc : binCore op a b = .ok v) : v' = v := by
  unfold foldBin at hf
  split at hf
  all_goals first
    | (have ea := evalE_lit_int fns f _ _ _ _ h1
       have eb := evalE_lit_int fns f _ _ _ _ h2
       subst ea; subst eb)
    | (have ea := evalE_lit_str fns f _ _ _ _ h1
       have eb := evalE_lit_str fns f _ _ _ _ h2
       subst ea; subst eb)
    | skip
  · injection hf with hf; subst hf; exact (chkInt_ok hc).symm
  · injection hf with hf; subst hf; exact (chkInt_ok hc).symm
  · injection hf with hf; subst hf; exact (chkInt_ok hc).symm
  · rename_i x y
    split at hf
    · cases hf
    · injection hf with hf; subst hf
      simp only [binCore] at hc
      split at hc
      · cases hc
      · rename_i hxy
        injection hc with hc; subst hc
        have hy : 0 ≤ y := by omega
        rw [Int.fdiv_eq_ediv_of_nonneg x hy]
  · rename_i x y
    split at hf
    · cases hf
    · injection hf with hf; subst hf
      simp only [binCore] at hc
      split at hc
      · cases hc
      · rename_i hxy
        injection hc with hc; subst hc
        have hy : 0 ≤ y := by omega
        rw [Int.fmod_eq_emod_of_nonneg x hy]
  · injection hf with hf; subst hf; simp [binCore] at hc; exact hc
  · injection hf with hf; subst hf; simp [binCore] at hc; exact hc
  · injection hf with hf; subst hf; simp [binCore] at hc; exact hc
  · injection hf with hf; subst hf; simp [binCore] at hc; exact hc
  · injection hf with hf; subst hf; simp [binCore] at hc; exact hc
  · injection hf with hf; subst hf; simp [binCore] at hc; exact hc
  · injection hf with hf; subst hf; simp [binCore] at hc; exact hc
  · cases hf

/-! ### simulation of the expression handlers on the pure fragment -/

theorem sim_heap_self (σ τ : State) (hs : Sim σ τ) : ({ σ with heap := τ.heap } : State) = σ := by
  cases σ; simp only [State.mk.injEq, and_true]; exact hs.heap.symm

/-- the temporary written last by the emitted code. -/
theorem write_tmp (σ τ : State) (n : Nat) (v : Val) (hs : Sim σ τ) :
    ∃ a0 f0, τ.frame a0 = some f0 ∧ τ.assign (tmp n) v = .ok (τ.wr a0 f0 (tmp n) v) ∧
      (τ.wr a0 f0 (tmp n) v).lookup (tmp n) = .ok v ∧ Sim σ (τ.wr a0 f0 (tmp n) v) ∧
      (∀ j, j ≠ n → (τ.wr a0 f0 (tmp n) v).lookup (tmp j) = τ.lookup (tmp j)) ∧
      (∀ x, τ.Loc x → (τ.wr a0 f0 (tmp n) v).Loc x) := by
  obtain ⟨a0, f0, hfa, hassign, hlook⟩ := assign_loc τ (tmp n) v (hs.loc n)
  refine ⟨a0, f0, hfa, hassign, hlook, ?_, ?_, ?_⟩
  · have := sim_after_write σ τ τ.heap a0 f0 n v hs hfa
    rw [sim_heap_self σ τ hs] at this
    exact this
  · intro j hj
    have hne : tmp j ≠ tmp n := fun hc => hj (tmp_inj hc)
    exact lookup_wr_ne τ a0 f0 (tmp n) (tmp j) v hfa hne
  · intro x hx
    exact loc_wr τ a0 f0 (tmp n) x v hfa hx

/-- **Simulation of the expression handlers on the pure fragment, for every row of the dialect table.** -/
theorem lowerE_sim (d : Dialect) (hd : d.Ok) (fns : List FnDef) : ∀ (fuel : Nat) (e : Expr), pureE e = true → NoTmpE e →
    ∀ (k : Nat) (σ τ σ' : State) (v : Val), evalE fns fuel σ e = (.ok v, σ') → Sim σ τ →
    σ' = σ ∧ k ≤ (lowerE d e k).2.2 ∧ OpdOK (lowerE d e k).2.1 k (lowerE d e k).2.2 ∧
    ∃ τ', (∀ rest N, exec (N + (lowerE d e k).1.length) τ ((lowerE d e k).1 ++ rest) = exec N τ' rest) ∧
      τ'.evalOpd (lowerE d e k).2.1 = .ok v ∧ Sim σ τ' ∧
      (∀ j, (j ≤ k ∨ (lowerE d e k).2.2 < j) → τ'.lookup (tmp j) = τ.lookup (tmp j)) ∧
      (∀ x, τ.Loc x → τ'.Loc x) := by
  intro fuel
  induction fuel with
  | zero => intro e _ _ k σ τ σ' v h _; simp [evalE] at h
  | succ f ih =>
  intro e hp hnt k σ τ σ' v h hsim
  have hst : σ' = σ := evalE_pure_state fns (f + 1) e σ σ' (.ok v) hp h
  subst hst
  refine ⟨rfl, ?_⟩
  cases e with
  | int n =>
    simp only [evalE, Prod.mk.injEq, Except.ok.injEq] at h
    obtain ⟨rfl, _⟩ := h
    simp only [lowerE]
    refine ⟨Nat.le_refl _, Or.inl ⟨_, rfl⟩, τ, ?_, ?_, hsim, fun _ _ => rfl, fun _ h => h⟩
    · intro rest N; simp
    · simp [State.evalOpd, State.evalOpdIn]
  | bool b =>
    simp only [evalE, Prod.mk.injEq, Except.ok.injEq] at h
    obtain ⟨rfl, _⟩ := h
    simp only [lowerE]
    refine ⟨Nat.le_refl _, Or.inl ⟨_, rfl⟩, τ, ?_, ?_, hsim, fun _ _ => rfl, fun _ h => h⟩
    · intro rest N; simp
    · simp [State.evalOpd, State.evalOpdIn]
  | str s =>
    simp only [evalE, Prod.mk.injEq, Except.ok.injEq] at h
    obtain ⟨rfl, _⟩ := h
    simp only [lowerE]
    by_cases hs : (d.strTmp && s != "") = true
    · -- PHP: the literal is copied to a fresh temporary
      rw [if_pos hs]
      obtain ⟨a0, f0, hfa, hassign, hlook, hsim', hpres, hloc⟩ := write_tmp σ' τ (k + 1) (.str s) hsim
      have hstep : stepSimple τ (.assign (tmp (k + 1)) "" (.lit (.str s)) none) =
          some (.ok (τ.wr a0 f0 (tmp (k + 1)) (.str s))) := by
        simp only [stepSimple, State.evalOpd, State.evalOpdIn, hassign, beq_self_eq_true, if_true]
      refine ⟨by simp, Or.inr (Or.inr ⟨rfl, by simp⟩), τ.wr a0 f0 (tmp (k + 1)) (.str s), ?_, ?_, hsim', ?_, hloc⟩
      · intro rest N
        exact exec_assign N τ _ _ "" _ none rest hsim.budget hstep
      · simpa [State.evalOpd, State.evalOpdIn, State.lookup] using hlook
      · intro j hj
        exact hpres j (by simp only at hj; omega)
    · rw [if_neg hs]
      refine ⟨Nat.le_refl _, Or.inl ⟨_, rfl⟩, τ, ?_, ?_, hsim, fun _ _ => rfl, fun _ h => h⟩
      · intro rest N; simp
      · simp [State.evalOpd, State.evalOpdIn]
  | var x =>
    simp only [evalE, Prod.mk.injEq] at h
    obtain ⟨hl, _⟩ := h
    simp only [lowerE]
    refine ⟨Nat.le_refl _, Or.inr (Or.inl ⟨x, rfl, hnt⟩), τ, ?_, ?_, hsim, fun _ _ => rfl, fun _ h => h⟩
    · intro rest N; simp
    · have : τ.lookup x = .ok v := by rw [← hsim.look x hnt]; exact hl
      simpa [State.evalOpd, State.evalOpdIn, State.lookup] using this
  | bin op l r =>
    simp only [pureE, Bool.and_eq_true] at hp
    obtain ⟨hntl, hntr⟩ := hnt
    simp only [evalE] at h
    cases h1 : evalE fns f σ' l with
    | mk r1 σ1 =>
    rw [h1] at h
    cases r1 with
    | error er => simp at h
    | ok va =>
    simp only at h
    cases h2 : evalE fns f σ1 r with
    | mk r2 σ2 =>
    rw [h2] at h
    cases r2 with
    | error er => simp at h
    | ok vb =>
    simp only [Prod.mk.injEq] at h
    obtain ⟨hbc, _⟩ := h
    simp only [lowerE]
    cases hfo : (if (d.fold && isLit l && isLit r) = true then foldOpd d (binTok d op) l r (foldBin op l r) else none) with
    | some o =>
      -- Java: folded to a constant
      simp only []
      have hcond : (d.fold && isLit l && isLit r) = true := by
        by_cases hc : (d.fold && isLit l && isLit r) = true
        · exact hc
        · rw [if_neg hc] at hfo; cases hfo
      rw [if_pos hcond] at hfo
      obtain ⟨v', hfb, rfl⟩ := foldOpd_some d hd.foldPy _ l r _ o hfo
      have hv : v' = v := foldBin_sound fns f op l r σ' σ1 σ2 va vb v v' hfb h1 h2 hbc
      subst hv
      refine ⟨Nat.le_refl _, Or.inl ⟨_, rfl⟩, τ, ?_, ?_, hsim, fun _ _ => rfl, fun _ h => h⟩
      · intro rest N; simp
      · simp [State.evalOpd, State.evalOpdIn]
    | none =>
      simp only [hd.rightFirst, Bool.false_eq_true, if_false]
      have hopd : op ≠ .div := by
        have := hp.1.1
        intro hc; subst hc; exact absurd this (by decide)
      obtain ⟨e1, hk1, hop1, τ1, hex1, hev1, hsim1, hpres1, hloc1⟩ := ih l hp.1.2 hntl k σ' τ σ1 va h1 hsim
      subst e1
      obtain ⟨e2, hk2, hop2, τ2, hex2, hev2, hsim2, hpres2, hloc2⟩ := ih r hp.2 hntr (lowerE d l k).2.2 σ1 τ1 σ2 vb h2 hsim1
      subst e2
      generalize hl : lowerE d l k = pl at *
      obtain ⟨s1, a, k1⟩ := pl
      simp only at hk1 hop1 hex1 hev1 hpres1 hk2 hop2 hex2 hev2 hpres2
      generalize hr : lowerE d r k1 = pr at *
      obtain ⟨s2, b, k2⟩ := pr
      simp only at hk2 hop2 hex2 hev2 hpres2
      simp only []
      have hF1 : τ2.evalOpd a = .ok va :=
        opd_stable σ2 σ2 τ1 τ2 a k k1 va hop1 hev1 hsim1 hsim2 rfl rfl (fun j hj => hpres2 j (Or.inl hj))
      obtain ⟨a0, f0, hfa, hassign, hlook, hsim', hpres, hloc⟩ := write_tmp σ2 τ2 (k2 + 1) v hsim2
      have hbin : binopH τ2.heap (binTok d op) va vb = .ok (v, τ2.heap) :=
        binCore_binopH τ2.heap d op hopd va vb v hbc
      have hstep : stepSimple τ2 (.assign (tmp (k2 + 1)) (binTok d op) a (some b)) =
          some (.ok (τ2.wr a0 f0 (tmp (k2 + 1)) v)) := by
        simp only [stepSimple, hF1, hev2, State.binop, hbin]
        exact congrArg some hassign
      refine ⟨by omega, Or.inr (Or.inr ⟨rfl, by omega⟩), τ2.wr a0 f0 (tmp (k2 + 1)) v, ?_, ?_, hsim', ?_, ?_⟩
      · intro rest N
        have e1 : N + (s1 ++ s2 ++ [Stmt.assign (tmp (k2 + 1)) (binTok d op) a (some b)]).length
            = (N + 1 + s2.length) + s1.length := by simp; omega
        have e2 : (s1 ++ s2 ++ [Stmt.assign (tmp (k2 + 1)) (binTok d op) a (some b)]) ++ rest
            = s1 ++ (s2 ++ (Stmt.assign (tmp (k2 + 1)) (binTok d op) a (some b) :: rest)) := by simp
        rw [e1, e2, hex1, hex2]
        exact exec_assign N τ2 _ _ (binTok d op) a (some b) rest hsim2.budget hstep
      · simpa [State.evalOpd, State.evalOpdIn, State.lookup] using hlook
      · intro j hj
        rw [hpres j (by omega), hpres2 j (by omega), hpres1 j (by omega)]
      · intro x hx
        exact hloc x (hloc2 x (hloc1 x hx))
  | un op e1 =>
    simp only [pureE] at hp
    simp only [evalE] at h
    cases h1 : evalE fns f σ' e1 with
    | mk r1 σ1 =>
    rw [h1] at h
    cases r1 with
    | error er => simp at h
    | ok va =>
    simp only [Prod.mk.injEq] at h
    obtain ⟨huc, _⟩ := h
    simp only [lowerE]
    cases hng : negLitOpd d op e1 with
    | some o =>
      -- C: `-12` is one literal
      simp only []
      have hv : o = .lit v := by
        unfold negLitOpd at hng
        split at hng
        · rename_i n
          split at hng
          · injection hng with hng
            have ea := evalE_lit_int fns f _ _ _ _ h1
            subst ea
            simp only [unCore] at huc
            rw [chkInt_ok huc, ← hng]
          · cases hng
        · cases hng
      subst hv
      refine ⟨Nat.le_refl _, Or.inl ⟨_, rfl⟩, τ, ?_, ?_, hsim, fun _ _ => rfl, fun _ h => h⟩
      · intro rest N; simp
      · simp [State.evalOpd, State.evalOpdIn]
    | none =>
      simp only []
      obtain ⟨e1', hk1, hop1, τ1, hex1, hev1, hsim1, hpres1, hloc1⟩ := ih e1 hp hnt k σ' τ σ1 va h1 hsim
      subst e1'
      generalize hl : lowerE d e1 k = pl at *
      obtain ⟨s1, a, k1⟩ := pl
      simp only at hk1 hop1 hex1 hev1 hpres1
      simp only []
      have hun : unopH τ1.heap (unTok d op) va = .ok v := unCore_unopH τ1.heap d hd.notOp op va v huc
      have hopne : (unTok d op == "") = false := by
        cases op with
        | neg => simp [unTok]
        | not => rcases hd.notOp with hn | hn <;> simp [unTok, hn]
      obtain ⟨a0, f0, hfa, hassign, hlook, hsim', hpres, hloc⟩ := write_tmp σ1 τ1 (k1 + 1) v hsim1
      have hstep : stepSimple τ1 (.assign (tmp (k1 + 1)) (unTok d op) a none) =
          some (.ok (τ1.wr a0 f0 (tmp (k1 + 1)) v)) := by
        simp only [stepSimple, hev1, hopne, State.unop, hun, hassign, Bool.false_eq_true, if_false]
      refine ⟨by omega, Or.inr (Or.inr ⟨rfl, by omega⟩), τ1.wr a0 f0 (tmp (k1 + 1)) v, ?_, ?_, hsim', ?_, ?_⟩
      · intro rest N
        have e1 : N + (s1 ++ [Stmt.assign (tmp (k1 + 1)) (unTok d op) a none]).length = (N + 1) + s1.length := by
          simp; omega
        have e2 : (s1 ++ [Stmt.assign (tmp (k1 + 1)) (unTok d op) a none]) ++ rest
            = s1 ++ (Stmt.assign (tmp (k1 + 1)) (unTok d op) a none :: rest) := by simp
        rw [e1, e2, hex1]
        exact exec_assign N τ1 _ _ (unTok d op) a none rest hsim1.budget hstep
      · simpa [State.evalOpd, State.evalOpdIn, State.lookup] using hlook
      · intro j hj
        rw [hpres j (by omega), hpres1 j (by omega)]
      · intro x hx
        exact hloc x (hloc1 x hx)
  | and _ _ => simp [pureE] at hp
  | or _ _ => simp [pureE] at hp
  | call _ _ => simp [pureE] at hp
  | idx _ _ => simp [pureE] at hp
  | fld _ _ => simp [pureE] at hp

/-! ### statements: the fragment -/

def isVarOf (e : Expr) (x : String) : Bool :=
  match e with
  | .var y => y == x
  | _ => false

mutual
/-- declaration / assignment of a name, expression statement, output, if/else, return — over pure
expressions.  (`x = x` is excluded: two dialects emit `variable_decl x` between the read and the write.) -/
def stmtFrag : Core.Stmt → Bool
  | .decl x _ e => pureE e && !isVarOf e x
  | .assign x e => pureE e && !isVarOf e x
  | .exprS e => pureE e
  | .out e => pureE e
  | .ret e => pureE e
  | .ifS c t e => pureE c && bodyFrag t && bodyFrag e
  | _ => false

def bodyFrag : List Core.Stmt → Bool
  | [] => true
  | s :: r => stmtFrag s && bodyFrag r
end

mutual
def NoTmpS : Core.Stmt → Prop
  | .decl x _ e => (∀ n, x ≠ tmp n) ∧ NoTmpE e
  | .assign x e => (∀ n, x ≠ tmp n) ∧ NoTmpE e
  | .exprS e => NoTmpE e
  | .out e => NoTmpE e
  | .ret e => NoTmpE e
  | .ifS c t e => NoTmpE c ∧ NoTmpB t ∧ NoTmpB e
  | _ => True

def NoTmpB : List Core.Stmt → Prop
  | [] => True
  | s :: r => NoTmpS s ∧ NoTmpB r
end

mutual
/-- no statement declares or assigns a variable called `g` (used with `g` = the output function). -/
def NotNamedS (g : String) : Core.Stmt → Prop
  | .decl x _ _ => g ≠ x
  | .assign x _ => g ≠ x
  | .ifS _ t e => NotNamedB g t ∧ NotNamedB g e
  | _ => True

def NotNamedB (g : String) : List Core.Stmt → Prop
  | [] => True
  | s :: r => NotNamedS g s ∧ NotNamedB g r
end

theorem assignLocal_loc (σ : State) (x : String) (v : Val) (hl : σ.Loc x) :
    ∃ fp f, σ.frame fp = some f ∧ assignLocal σ x v = .ok (σ.wr fp f x v) ∧
      (σ.wr fp f x v).lookup x = .ok v := by
  obtain ⟨fp, rest, f0, henv, hfp, hg, hn⟩ := hl
  refine ⟨fp, f0, hfp, ?_, ?_⟩
  · simp only [assignLocal, henv]
    exact setVarAt_eq σ fp f0 x v hfp
  · have hres' : (σ.wr fp f0 x v).resolve σ.env x = some fp := by
      rw [henv]
      simp only [State.resolve, frame_wr_same σ fp f0 x v hfp, hg, hn, Bool.false_eq_true, if_false]
      exact findDecl_wr_head σ rest x v fp f0 hfp
    unfold State.lookup State.lookupIn
    rw [wr_env, hres']; simp only [frame_wr_same σ fp f0 x v hfp, alGet_alSet_eq]

/-- an operand that is a source variable comes from the expression being exactly that variable. -/
theorem opd_var_name (d : Dialect) (hd : d.Ok) (e : Expr) (k : Nat) (y : String) (hp : pureE e = true)
    (ho : (lowerE d e k).2.1 = .var y) (hy : ∀ n, y ≠ tmp n) : e = .var y := by
  cases e with
  | int n => simp [lowerE] at ho
  | bool b => simp [lowerE] at ho
  | str s =>
    simp only [lowerE] at ho
    split at ho
    · injection ho with ho; exact absurd ho.symm (hy _)
    · cases ho
  | var z => simp [lowerE] at ho; rw [ho]
  | bin op l r =>
    simp only [lowerE] at ho
    cases hfo : (if (d.fold && isLit l && isLit r) = true then foldOpd d (binTok d op) l r (foldBin op l r) else none) with
    | some o =>
      rw [hfo] at ho
      simp only at ho
      have hcond : (d.fold && isLit l && isLit r) = true := by
        by_cases hc : (d.fold && isLit l && isLit r) = true
        · exact hc
        · rw [if_neg hc] at hfo; cases hfo
      rw [if_pos hcond] at hfo
      obtain ⟨v', _, rfl⟩ := foldOpd_some d hd.foldPy _ l r _ o hfo
      cases ho
    | none =>
      rw [hfo] at ho
      simp only [hd.rightFirst, Bool.false_eq_true, if_false] at ho
      injection ho with ho
      exact absurd ho.symm (hy _)
  | un op e1 =>
    simp only [lowerE] at ho
    cases hng : negLitOpd d op e1 with
    | some o =>
      rw [hng] at ho
      simp only at ho
      unfold negLitOpd at hng
      split at hng
      · split at hng
        · injection hng with hng; rw [← hng] at ho; cases ho
        · cases hng
      · cases hng
    | none =>
      rw [hng] at ho
      simp only at ho
      injection ho with ho
      exact absurd ho.symm (hy _)
  | and _ _ => simp [pureE] at hp
  | or _ _ => simp [pureE] at hp
  | call _ _ => simp [pureE] at hp
  | idx _ _ => simp [pureE] at hp
  | fld _ _ => simp [pureE] at hp

/-- `x = e` lowered WITHOUT a declaration (C, Go, Java, TypeScript re-assignment). -/
theorem head_set (d : Dialect) (hd : d.Ok) (fns : List FnDef) (f : Nat) (x : String) (e : Expr) (k : Nat)
    (σ τ σ1 σ2 : State) (v : Val)
    (hp : pureE e = true) (hx : ∀ n, x ≠ tmp n) (hnt : NoTmpE e)
    (hev : evalE fns f σ e = (.ok v, σ1)) (has : assignLocal σ1 x v = .ok σ2) (hs : Sim2 σ τ) :
    ∃ τ2, Sim2 σ2 τ2 ∧ ∀ rest N,
      exec (N + ((lowerE d e k).1 ++ [Stmt.assign x "" (lowerE d e k).2.1 none]).length) τ
        (((lowerE d e k).1 ++ [Stmt.assign x "" (lowerE d e k).2.1 none]) ++ rest) = exec N τ2 rest := by
  obtain ⟨e1, _, hop, τ1, hex, hev1, hsim1, _, hloc1⟩ := lowerE_sim d hd fns f e hp hnt k σ τ σ1 v hev hs.sim
  subst e1
  have tloc1 : ∀ y, τ1.Loc y := fun y => hloc1 y (hs.tloc y)
  obtain ⟨fp, fs, hfs, hassign, hlook⟩ := assignLocal_loc σ1 x v (hs.sloc x)
  rw [hassign] at has
  injection has with has
  subst has
  obtain ⟨a, g, hga, hassignt, hlookt⟩ := assign_loc τ1 x v (tloc1 x)
  have hstepa : stepSimple τ1 (.assign x "" (lowerE d e k).2.1 none) = some (.ok (τ1.wr a g x v)) := by
    simp only [stepSimple, hev1, hassignt, beq_self_eq_true, if_true]
  refine ⟨τ1.wr a g x v, ⟨?_, ?_, ?_⟩, ?_⟩
  · refine sim_assign σ1 τ1 _ _ x v hsim1 ?_ ?_ ?_ ?_ ?_ ?_ hlook hlookt ?_
    · simp only [wr_heap]; exact hsim1.heap
    · simp only [wr_env]; exact hsim1.env
    · simp only [wr_out]; exact hsim1.out
    · simp only [wr_budget]; exact hsim1.budget
    · intro y hy; exact lookup_wr_ne σ1 fp fs x y v hfs hy
    · intro y hy; exact lookup_wr_ne τ1 a g x y v hga hy
    · intro n; exact loc_wr τ1 a g x _ v hga (tloc1 _)
  · intro y; exact loc_wr σ1 fp fs x y v hfs (hs.sloc y)
  · intro y; exact loc_wr τ1 a g x y v hga (tloc1 y)
  · intro rest N
    have e1 : N + ((lowerE d e k).1 ++ [Stmt.assign x "" (lowerE d e k).2.1 none]).length
        = (N + 1) + (lowerE d e k).1.length := by simp; omega
    have e2 : ((lowerE d e k).1 ++ [Stmt.assign x "" (lowerE d e k).2.1 none]) ++ rest
        = (lowerE d e k).1 ++ (Stmt.assign x "" (lowerE d e k).2.1 none :: rest) := by simp
    rw [e1, e2, hex]
    exact exec_assign N τ1 _ x "" _ none rest hsim1.budget hstepa

/-- `x = e` lowered WITH `variable_decl x` before the write (every declaration; every assignment in the
Python and PHP dialects). -/
theorem head_declset (d : Dialect) (hd : d.Ok) (fns : List FnDef) (f : Nat) (x : String) (e : Expr) (k : Nat)
    (σ τ σ1 σ2 : State) (v : Val)
    (hp : pureE e = true) (hne : isVarOf e x = false) (hx : ∀ n, x ≠ tmp n) (hnt : NoTmpE e)
    (hev : evalE fns f σ e = (.ok v, σ1)) (has : assignLocal σ1 x v = .ok σ2) (hs : Sim2 σ τ) :
    ∃ τ2, Sim2 σ2 τ2 ∧ ∀ rest N,
      exec (N + ((lowerE d e k).1 ++ [Stmt.varDecl x, Stmt.assign x "" (lowerE d e k).2.1 none]).length) τ
        (((lowerE d e k).1 ++ [Stmt.varDecl x, Stmt.assign x "" (lowerE d e k).2.1 none]) ++ rest)
        = exec N τ2 rest := by
  obtain ⟨e1, _, hop, τ1, hex, hev1, hsim1, _, hloc1⟩ := lowerE_sim d hd fns f e hp hnt k σ τ σ1 v hev hs.sim
  subst e1
  have tloc1 : ∀ y, τ1.Loc y := fun y => hloc1 y (hs.tloc y)
  obtain ⟨fp, fs, hfs, hassign, hlook⟩ := assignLocal_loc σ1 x v (hs.sloc x)
  rw [hassign] at has
  injection has with has
  subst has
  -- target: variable_decl
  obtain ⟨fpt, restt, ft, henvt, hfpt, _, _⟩ := tloc1 x
  have hstepd := step_varDecl τ1 x fpt restt ft henvt hfpt
  have tlocd : ∀ y, (τ1.setFrame fpt (declFrame ft x)).Loc y := fun y =>
    loc_setFrame τ1 fpt ft _ y hfpt (declFrame_globals ft x) (declFrame_nonlocals ft x) (tloc1 y)
  have hlookd : ∀ y, y ≠ x → (τ1.setFrame fpt (declFrame ft x)).lookup y = τ1.lookup y := fun y hy =>
    lookup_setFrame τ1 fpt ft _ y hfpt (declFrame_globals ft x) (declFrame_nonlocals ft x)
      (declFrame_get_ne ft x y hy)
  -- the operand still has its value after the declaration
  have hevd : (τ1.setFrame fpt (declFrame ft x)).evalOpd (lowerE d e k).2.1 = .ok v := by
    rcases hop with ⟨c, hc⟩ | ⟨y, hy, hyn⟩ | ⟨ht, _⟩
    · rw [hc] at hev1 ⊢; rw [evalOpd_lit] at hev1 ⊢; exact hev1
    · have hey := opd_var_name d hd e k y hp hy hyn
      have hyx : y ≠ x := by
        intro h; subst h; rw [hey] at hne; simp [isVarOf] at hne
      rw [hy] at hev1 ⊢; rw [evalOpd_var] at hev1 ⊢; rw [hlookd y hyx]; exact hev1
    · rw [ht] at hev1 ⊢; rw [evalOpd_var] at hev1 ⊢
      rw [hlookd _ (fun h => hx _ h.symm)]; exact hev1
  -- target: the assignment
  obtain ⟨a, g, hga, hassignt, hlookt⟩ := assign_loc (τ1.setFrame fpt (declFrame ft x)) x v (tlocd x)
  have hstepa : stepSimple (τ1.setFrame fpt (declFrame ft x)) (.assign x "" (lowerE d e k).2.1 none)
      = some (.ok ((τ1.setFrame fpt (declFrame ft x)).wr a g x v)) := by
    simp only [stepSimple, hevd, hassignt, beq_self_eq_true, if_true]
  refine ⟨(τ1.setFrame fpt (declFrame ft x)).wr a g x v, ⟨?_, ?_, ?_⟩, ?_⟩
  · refine sim_assign σ1 τ1 _ _ x v hsim1 ?_ ?_ ?_ ?_ ?_ ?_ hlook hlookt ?_
    · simp only [wr_heap]; exact hsim1.heap
    · simp only [wr_env]; exact hsim1.env
    · simp only [wr_out]; exact hsim1.out
    · simp only [wr_budget]; exact hsim1.budget
    · intro y hy; exact lookup_wr_ne σ1 fp fs x y v hfs hy
    · intro y hy; rw [lookup_wr_ne _ a g x y v hga hy]; exact hlookd y hy
    · intro n; exact loc_wr _ a g x _ v hga (tlocd _)
  · intro y; exact loc_wr σ1 fp fs x y v hfs (hs.sloc y)
  · intro y; exact loc_wr _ a g x y v hga (tlocd y)
  · intro rest N
    have e1 : N + ((lowerE d e k).1 ++ [Stmt.varDecl x, Stmt.assign x "" (lowerE d e k).2.1 none]).length
        = (N + 2) + (lowerE d e k).1.length := by simp; omega
    have e2 : ((lowerE d e k).1 ++ [Stmt.varDecl x, Stmt.assign x "" (lowerE d e k).2.1 none]) ++ rest
        = (lowerE d e k).1 ++ (Stmt.varDecl x :: Stmt.assign x "" (lowerE d e k).2.1 none :: rest) := by simp
    rw [e1, e2, hex]
    rw [exec_varDecl (N + 1) τ1 _ x _ hsim1.budget hstepd]
    exact exec_assign N _ _ x "" _ none rest hsim1.budget hstepa

/-- pure source evaluation keeps `Loc`. -/
theorem truthy_bool (σ : State) (b : Bool) : σ.truthy (.bool b) = b := by
  simp [State.truthy, truthyH]

theorem asBool_ok {v : Val} {b : Bool} (h : asBool v = .ok b) : v = .bool b := by
  cases v <;> simp [asBool] at h
  rw [h]

theorem assignLocal_keeps (σ σ2 : State) (x g : String) (v : Val) (hl : σ.Loc x)
    (h : assignLocal σ x v = .ok σ2) (hg : g ≠ x) : σ2.lookup g = σ.lookup g := by
  obtain ⟨fp, fs, hfs, hassign, _⟩ := assignLocal_loc σ x v hl
  rw [hassign] at h
  injection h with h
  subst h
  exact lookup_wr_ne σ fp fs x g v hfs hg

/-! ### the output call -/

theorem exec_out (N : Nat) (τ τ2 : State) (t g : String) (o : Opd) (v : Val) (rest : List Gir.Stmt)
    (hb : τ.budget = none) (hg : τ.lookup g = .ok (.builtin g)) (hgn : g = "print" ∨ g = "output")
    (hv : τ.evalOpd o = .ok v)
    (has : ({ τ with out := τ.render v :: τ.out } : State).assign t .none = .ok τ2) :
    exec (N + 1) τ (.call t (.var g) [o] [] :: rest) = exec N τ2 rest := by
  have hfv : τ.evalOpd (.var g) = .ok (.builtin g) := by
    simpa [State.evalOpd, State.evalOpdIn, State.lookup] using hg
  have hargs : τ.evalOpds [o] = .ok [v] := by
    simp [State.evalOpds, hv]
  have hnamed : τ.evalNamed [] = .ok [] := by simp [State.evalNamed]
  have hcall : callBuiltin τ g [v] [] = (.ok .none, { τ with out := τ.render v :: τ.out }) := by
    rcases hgn with rfl | rfl <;> simp [callBuiltin, joinWith]
  simp only [hb] at has
  simp only [exec, State.tick, hb, hfv, hargs, hnamed, invoke, hcall]
  rw [has]

/-- the statements of `output(e)`: the argument, then the call (Python takes the result temporary
before parsing the argument). -/
theorem lowerE_out (d : Dialect) (hd : d.Ok) (e : Expr) (k : Nat) :
    lowerE d (.call d.outName [e]) k =
      if d.callTmpFirst then
        ((lowerE d e (k + 1)).1 ++ [Stmt.call (tmp (k + 1)) (.var d.outName) [(lowerE d e (k + 1)).2.1] []],
         Opd.var (tmp (k + 1)), (lowerE d e (k + 1)).2.2)
      else
        ((lowerE d e k).1 ++ [Stmt.call (tmp ((lowerE d e k).2.2 + 1)) (.var d.outName) [(lowerE d e k).2.1] []],
         Opd.var (tmp ((lowerE d e k).2.2 + 1)), (lowerE d e k).2.2 + 1) := by
  simp only [lowerE, lowerArgs, hd.goOff, Bool.false_eq_true, if_false, List.append_nil]

theorem head_out (d : Dialect) (hd : d.Ok) (fns : List FnDef) (f : Nat) (e : Expr) (k : Nat)
    (σ τ σ1 : State) (v : Val) (hp : pureE e = true) (hnt : NoTmpE e)
    (hev : evalE fns f σ e = (.ok v, σ1)) (hs : Sim2 σ τ)
    (hof : σ.lookup d.outName = .ok (.builtin d.outName)) :
    ∃ τ2, Sim2 ({ σ1 with out := σ1.render v :: σ1.out } : State) τ2 ∧ ∀ rest N,
      exec (N + (lowerE d (.call d.outName [e]) k).1.length) τ ((lowerE d (.call d.outName [e]) k).1 ++ rest)
        = exec N τ2 rest := by
  -- the two shapes differ only in the counter the argument starts from and in the result temporary
  have key : ∀ (k0 n : Nat), ∃ τ2, Sim2 ({ σ1 with out := σ1.render v :: σ1.out } : State) τ2 ∧ ∀ rest N,
      exec (N + ((lowerE d e k0).1 ++ [Stmt.call (tmp n) (.var d.outName) [(lowerE d e k0).2.1] []]).length) τ
        (((lowerE d e k0).1 ++ [Stmt.call (tmp n) (.var d.outName) [(lowerE d e k0).2.1] []]) ++ rest)
        = exec N τ2 rest := by
    intro k0 n
    obtain ⟨e1, _, _, τ1, hex, hev1, hsim1, _, hloc1⟩ := lowerE_sim d hd fns f e hp hnt k0 σ τ σ1 v hev hs.sim
    subst e1
    have tloc1 : ∀ y, τ1.Loc y := fun y => hloc1 y (hs.tloc y)
    have hg1 : τ1.lookup d.outName = .ok (.builtin d.outName) := by
      rw [← hsim1.look d.outName (outName_ne_tmp d hd)]; exact hof
    -- the state after the builtin ran
    let τo : State := { τ1 with out := τ1.render v :: τ1.out }
    have hloco : ∀ y, τo.Loc y := fun y => loc_congr τ1 τo rfl rfl y (tloc1 y)
    obtain ⟨a, g, hga, hassignt, _⟩ := assign_loc τo (tmp n) .none (hloco _)
    have hrender : σ1.render v = τ1.render v := by
      simp only [State.render, hsim1.heap]
    refine ⟨τo.wr a g (tmp n) .none, ⟨⟨?_, ?_, ?_, ?_, ?_, ?_⟩, ?_, ?_⟩, ?_⟩
    · simp only [wr_heap]; exact hsim1.heap
    · simp only [wr_env]; exact hsim1.env
    · simp only [wr_out]; show σ1.render v :: σ1.out = τ1.render v :: τ1.out
      rw [hrender, hsim1.out]
    · simp only [wr_budget]; exact hsim1.budget
    · intro x hx
      rw [lookup_wr_ne τo a g (tmp n) x .none hga (hx n)]
      have e1 : ({ σ1 with out := σ1.render v :: σ1.out } : State).lookup x = σ1.lookup x :=
        lookup_congr σ1 { σ1 with out := σ1.render v :: σ1.out } rfl rfl x
      have e2 : τo.lookup x = τ1.lookup x := lookup_congr τ1 τo rfl rfl x
      rw [e1, e2]
      exact hsim1.look x hx
    · intro m; exact loc_wr τo a g (tmp n) _ .none hga (hloco _)
    · intro y; exact loc_congr σ1 { σ1 with out := σ1.render v :: σ1.out } rfl rfl y (hs.sloc y)
    · intro y; exact loc_wr τo a g (tmp n) y .none hga (hloco y)
    · intro rest N
      have e1 : N + ((lowerE d e k0).1 ++ [Stmt.call (tmp n) (.var d.outName) [(lowerE d e k0).2.1] []]).length
          = (N + 1) + (lowerE d e k0).1.length := by simp; omega
      have e2 : ((lowerE d e k0).1 ++ [Stmt.call (tmp n) (.var d.outName) [(lowerE d e k0).2.1] []]) ++ rest
          = (lowerE d e k0).1 ++ (Stmt.call (tmp n) (.var d.outName) [(lowerE d e k0).2.1] [] :: rest) := by simp
      rw [e1, e2, hex]
      exact exec_out N τ1 _ (tmp n) d.outName _ v rest hsim1.budget hg1 hd.outName hev1 hassignt
  rw [lowerE_out d hd e k]
  by_cases hc : d.callTmpFirst = true
  · rw [if_pos hc]; exact key (k + 1) (k + 1)
  · rw [if_neg hc]; exact key k ((lowerE d e k).2.2 + 1)

/-- **Simulation of the statement handlers** (declaration, assignment, expression statement, output,
if/else, return over pure expressions) for every row of the dialect table. -/
theorem lowerB_sim (d : Dialect) (hd : d.Ok) (fns : List FnDef) : ∀ (fuel : Nat) (B : List Core.Stmt),
    bodyFrag B = true → NoTmpB B → NotNamedB d.outName B →
    ∀ (k : Nat) (σ τ σ' : State) (o : Outcome), execS fns fuel σ B = (o, σ') →
    (o = .normal ∨ ∃ w, o = .ret w) → Sim2 σ τ → σ.lookup d.outName = .ok (.builtin d.outName) →
    ∃ τ', Sim2 σ' τ' ∧ σ'.lookup d.outName = .ok (.builtin d.outName) ∧ Runs (lowerB d B k).1 τ τ' o := by
  intro fuel
  induction fuel with
  | zero =>
    intro B _ _ _ k σ τ σ' o h ho _ _
    simp only [execS, Prod.mk.injEq] at h
    rcases ho with ho | ⟨w, ho⟩ <;> rw [ho] at h <;> cases h.1
  | succ f ih =>
    intro B hfrag hnt hnn k σ τ σ' o h ho hs hof
    cases B with
    | nil =>
      simp only [execS, Prod.mk.injEq] at h
      obtain ⟨rfl, rfl⟩ := h
      refine ⟨τ, hs, hof, ?_⟩
      intro rest N _
      simp only [lowerB]
      exact ⟨fun _ => by simp, fun w hw => by cases hw⟩
    | cons s B' =>
      simp only [bodyFrag, Bool.and_eq_true] at hfrag
      obtain ⟨hsf, hBf⟩ := hfrag
      obtain ⟨hnS, hnB⟩ := hnt
      obtain ⟨hnnS, hnnB⟩ := hnn
      simp only [lowerB]
      -- a statement whose source evaluation fails cannot end normally / by return
      have hbad : ∀ {er : String} {σx : State}, (Outcome.err er, σx) = (o, σ') → False := by
        intro er σx hx
        simp only [Prod.mk.injEq] at hx
        rcases ho with ho | ⟨w, ho⟩ <;> rw [ho] at hx <;> cases hx.1
      cases s with
      | decl x ty e =>
        simp only [stmtFrag, Bool.and_eq_true, Bool.not_eq_true'] at hsf
        obtain ⟨hx, hne⟩ := hnS
        simp only [execS] at h
        cases h1 : evalE fns f σ e with
        | mk r1 σ1 =>
        rw [h1] at h
        cases r1 with
        | error er => exact absurd (hbad h) id
        | ok v =>
        simp only at h
        cases h2 : assignLocal σ1 x v with
        | error er => rw [h2] at h; exact absurd (hbad h) id
        | ok σ2 =>
        rw [h2] at h
        simp only at h
        obtain ⟨τ2, hs2, hhead⟩ := head_declset d hd fns f x e k σ τ σ1 σ2 v hsf.1 hsf.2 hx hne h1 h2 hs
        have hst1 : σ1 = σ := evalE_pure_state fns f e σ σ1 _ hsf.1 h1
        have hof2 : σ2.lookup d.outName = .ok (.builtin d.outName) := by
          rw [assignLocal_keeps σ1 σ2 x d.outName v (by rw [hst1]; exact hs.sloc x) h2 hnnS, hst1]; exact hof
        obtain ⟨τ', hs', hof', hruns⟩ := ih B' hBf hnB hnnB (lowerS d (.decl x ty e) k).2 σ2 τ2 σ' o h ho hs2 hof2
        refine ⟨τ', hs', hof', ?_⟩
        have hlow : (lowerS d (.decl x ty e) k).1
            = (lowerE d e k).1 ++ [Stmt.varDecl x, Stmt.assign x "" (lowerE d e k).2.1 none] := by
          simp only [lowerS]
        rw [hlow]
        exact seq_combine _ _ τ τ2 τ' o (fun rest N _ => hhead rest N) hruns
      | assign x e =>
        simp only [stmtFrag, Bool.and_eq_true, Bool.not_eq_true'] at hsf
        obtain ⟨hx, hne⟩ := hnS
        simp only [execS] at h
        cases h1 : evalE fns f σ e with
        | mk r1 σ1 =>
        rw [h1] at h
        cases r1 with
        | error er => exact absurd (hbad h) id
        | ok v =>
        simp only at h
        cases h2 : assignLocal σ1 x v with
        | error er => rw [h2] at h; exact absurd (hbad h) id
        | ok σ2 =>
        rw [h2] at h
        simp only at h
        have hst1 : σ1 = σ := evalE_pure_state fns f e σ σ1 _ hsf.1 h1
        have hof2 : σ2.lookup d.outName = .ok (.builtin d.outName) := by
          rw [assignLocal_keeps σ1 σ2 x d.outName v (by rw [hst1]; exact hs.sloc x) h2 hnnS, hst1]; exact hof
        by_cases hde : d.declEvery = true
        · obtain ⟨τ2, hs2, hhead⟩ := head_declset d hd fns f x e k σ τ σ1 σ2 v hsf.1 hsf.2 hx hne h1 h2 hs
          obtain ⟨τ', hs', hof', hruns⟩ := ih B' hBf hnB hnnB (lowerS d (.assign x e) k).2 σ2 τ2 σ' o h ho hs2 hof2
          refine ⟨τ', hs', hof', ?_⟩
          have hlow : (lowerS d (.assign x e) k).1
              = (lowerE d e k).1 ++ [Stmt.varDecl x, Stmt.assign x "" (lowerE d e k).2.1 none] := by
            simp only [lowerS, hde, if_true]
          rw [hlow]
          exact seq_combine _ _ τ τ2 τ' o (fun rest N _ => hhead rest N) hruns
        · obtain ⟨τ2, hs2, hhead⟩ := head_set d hd fns f x e k σ τ σ1 σ2 v hsf.1 hx hne h1 h2 hs
          obtain ⟨τ', hs', hof', hruns⟩ := ih B' hBf hnB hnnB (lowerS d (.assign x e) k).2 σ2 τ2 σ' o h ho hs2 hof2
          refine ⟨τ', hs', hof', ?_⟩
          by_cases hes : d.exprStmt = true
          · -- TypeScript: expression_stmt (no effect) after the assignment
            have hlow : (lowerS d (.assign x e) k).1
                = ((lowerE d e k).1 ++ [Stmt.assign x "" (lowerE d e k).2.1 none]) ++ [Stmt.pass] := by
              simp only [lowerS, hde, hes, Bool.false_eq_true, if_false, if_true]; simp
            rw [hlow]
            refine seq_combine _ _ τ τ2 τ' o ?_ hruns
            intro rest N _
            have e1 : N + (((lowerE d e k).1 ++ [Stmt.assign x "" (lowerE d e k).2.1 none]) ++ [Stmt.pass]).length
                = (N + 1) + ((lowerE d e k).1 ++ [Stmt.assign x "" (lowerE d e k).2.1 none]).length := by
              simp; omega
            have e2 : (((lowerE d e k).1 ++ [Stmt.assign x "" (lowerE d e k).2.1 none]) ++ [Stmt.pass]) ++ rest
                = ((lowerE d e k).1 ++ [Stmt.assign x "" (lowerE d e k).2.1 none]) ++ (Stmt.pass :: rest) := by simp
            rw [e1, e2, hhead (Stmt.pass :: rest) (N + 1)]
            exact exec_pass N τ2 rest hs2.sim.budget
          · have hlow : (lowerS d (.assign x e) k).1
                = (lowerE d e k).1 ++ [Stmt.assign x "" (lowerE d e k).2.1 none] := by
              simp only [lowerS, hde, hes, Bool.false_eq_true, if_false]
            rw [hlow]
            exact seq_combine _ _ τ τ2 τ' o (fun rest N _ => hhead rest N) hruns
      | exprS e =>
        simp only [stmtFrag] at hsf
        simp only [execS] at h
        cases h1 : evalE fns f σ e with
        | mk r1 σ1 =>
        rw [h1] at h
        cases r1 with
        | error er => exact absurd (hbad h) id
        | ok v =>
        simp only at h
        obtain ⟨e1, _, _, τ1, hex, _, hsim1, _, hloc1⟩ := lowerE_sim d hd fns f e hsf hnS k σ τ σ1 v h1 hs.sim
        subst e1
        have hs1 : Sim2 σ1 τ1 := ⟨hsim1, hs.sloc, fun y => hloc1 y (hs.tloc y)⟩
        obtain ⟨τ', hs', hof', hruns⟩ := ih B' hBf hnB hnnB (lowerS d (.exprS e) k).2 σ1 τ1 σ' o h ho hs1 hof
        refine ⟨τ', hs', hof', ?_⟩
        by_cases hes : d.exprStmt = true
        · have hlow : (lowerS d (.exprS e) k).1 = (lowerE d e k).1 ++ [Stmt.pass] := by
            simp only [lowerS, hes, if_true]
          rw [hlow]
          refine seq_combine _ _ τ τ1 τ' o ?_ hruns
          intro rest N _
          have e1 : N + ((lowerE d e k).1 ++ [Stmt.pass]).length = (N + 1) + (lowerE d e k).1.length := by simp; omega
          have e2 : ((lowerE d e k).1 ++ [Stmt.pass]) ++ rest = (lowerE d e k).1 ++ (Stmt.pass :: rest) := by simp
          rw [e1, e2, hex]
          exact exec_pass N τ1 rest hsim1.budget
        · have hlow : (lowerS d (.exprS e) k).1 = (lowerE d e k).1 := by
            simp only [lowerS, hes, Bool.false_eq_true, if_false]
          rw [hlow]
          exact seq_combine _ _ τ τ1 τ' o (fun rest N _ => hex rest N) hruns
      | ret e =>
        simp only [stmtFrag] at hsf
        simp only [execS] at h
        cases h1 : evalE fns f σ e with
        | mk r1 σ1 =>
        rw [h1] at h
        cases r1 with
        | error er => exact absurd (hbad h) id
        | ok v =>
        simp only [Prod.mk.injEq] at h
        obtain ⟨rfl, rfl⟩ := h
        obtain ⟨e1, _, _, τ1, hex, hev1, hsim1, _, hloc1⟩ := lowerE_sim d hd fns f e hsf hnS k σ τ σ1 v h1 hs.sim
        subst e1
        refine ⟨τ1, ⟨hsim1, hs.sloc, fun y => hloc1 y (hs.tloc y)⟩, hof, ?_⟩
        intro rest N _
        refine ⟨fun hc => (by cases hc), ?_⟩
        intro w hw
        cases hw
        have hlow : (lowerS d (.ret e) k).1 = (lowerE d e k).1 ++ [Stmt.ret (lowerE d e k).2.1] := by
          simp only [lowerS, hd.goOff, Bool.false_eq_true, if_false]
        rw [hlow]
        have e1 : N + (((lowerE d e k).1 ++ [Stmt.ret (lowerE d e k).2.1]) ++
              (lowerB d B' (lowerS d (.ret e) k).2).1).length
            = ((N + (lowerB d B' (lowerS d (.ret e) k).2).1.length) + 1) + (lowerE d e k).1.length := by
          simp; omega
        have e2 : (((lowerE d e k).1 ++ [Stmt.ret (lowerE d e k).2.1]) ++
              (lowerB d B' (lowerS d (.ret e) k).2).1) ++ rest
            = (lowerE d e k).1 ++ (Stmt.ret (lowerE d e k).2.1 ::
                ((lowerB d B' (lowerS d (.ret e) k).2).1 ++ rest)) := by simp
        rw [e1, e2, hex]
        exact exec_ret _ τ1 _ v _ hsim1.budget hev1
      | ifS c t e =>
        simp only [stmtFrag, Bool.and_eq_true] at hsf
        obtain ⟨⟨hcp, htf⟩, hef⟩ := hsf
        obtain ⟨hnc, hntt, hnte⟩ := hnS
        simp only [execS] at h
        cases h1 : evalE fns f σ c with
        | mk r1 σ1 =>
        rw [h1] at h
        cases r1 with
        | error er => exact absurd (hbad h) id
        | ok vc =>
        simp only at h
        cases hab : asBool vc with
        | error er => rw [hab] at h; exact absurd (hbad h) id
        | ok bc =>
        rw [hab] at h
        simp only at h
        have hvc := asBool_ok hab
        subst hvc
        obtain ⟨e1, _, _, τ1, hex, hev1, hsim1, _, hloc1⟩ := lowerE_sim d hd fns f c hcp hnc k σ τ σ1 (.bool bc) h1 hs.sim
        subst e1
        have hs1 : Sim2 σ1 τ1 := ⟨hsim1, hs.sloc, fun y => hloc1 y (hs.tloc y)⟩
        -- name the pieces of the lowered `if`
        generalize hk1 : (lowerE d c k).2.2 = k1 at *
        generalize hbt : lowerB d t k1 = pt at *
        obtain ⟨bt, k2⟩ := pt
        generalize hbe : lowerB d e k2 = pe at *
        obtain ⟨be, k3⟩ := pe
        have hlow : lowerS d (.ifS c t e) k = ((lowerE d c k).1 ++ [Stmt.ifS (lowerE d c k).2.1 bt be], k3) := by
          simp only [lowerS, hk1, hbt, hbe]
        rw [hlow]
        simp only
        have htr : τ1.truthy (.bool bc) = bc := truthy_bool τ1 bc
        -- the branch taken
        cases hbr : execS fns f σ1 (if bc = true then t else e) with
        | mk ob σ2 =>
        rw [hbr] at h
        have hob : (ob = .normal ∨ ∃ w, ob = .ret w) := by
          cases ob with
          | normal => exact Or.inl rfl
          | ret w => exact Or.inr ⟨w, rfl⟩
          | brk => exact absurd (by simp only [Prod.mk.injEq] at h; rcases ho with ho | ⟨w, ho⟩ <;> rw [ho] at h <;> cases h.1) id
          | cont => exact absurd (by simp only [Prod.mk.injEq] at h; rcases ho with ho | ⟨w, ho⟩ <;> rw [ho] at h <;> cases h.1) id
          | err er => exact absurd (by simp only [Prod.mk.injEq] at h; rcases ho with ho | ⟨w, ho⟩ <;> rw [ho] at h <;> cases h.1) id
        have hbranch : ∃ τ2, Sim2 σ2 τ2 ∧ σ2.lookup d.outName = .ok (.builtin d.outName) ∧
            Runs (if τ1.truthy (.bool bc) = true then bt else be) τ1 τ2 ob := by
          rw [htr]
          by_cases hb : bc = true
          · rw [if_pos hb] at hbr ⊢
            have := ih t htf hntt hnnS.1 k1 σ1 τ1 σ2 ob hbr hob hs1 hof
            rw [hbt] at this
            exact this
          · rw [if_neg hb] at hbr ⊢
            have := ih e hef hnte hnnS.2 k2 σ1 τ1 σ2 ob hbr hob hs1 hof
            rw [hbe] at this
            exact this
        obtain ⟨τ2, hs2, hof2, hrunsb⟩ := hbranch
        have hcostb : costL (if τ1.truthy (.bool bc) = true then bt else be)
            + (if τ1.truthy (.bool bc) = true then bt else be).length + 2
            ≤ costS (Stmt.ifS (lowerE d c k).2.1 bt be) := by
          simp only [costS]; split <;> omega
        cases ob with
        | normal =>
          simp only at h
          obtain ⟨τ', hs', hof', hruns⟩ := ih B' hBf hnB hnnB k3 σ2 τ2 σ' o h ho hs2 hof2
          refine ⟨τ', hs', hof', seq_combine _ _ τ τ2 τ' o ?_ hruns⟩
          intro rest N hN
          rw [costL_append] at hN
          simp only [costL, Nat.add_zero] at hN
          have e1 : N + ((lowerE d c k).1 ++ [Stmt.ifS (lowerE d c k).2.1 bt be]).length
              = (N + 1) + (lowerE d c k).1.length := by simp; omega
          have e2 : ((lowerE d c k).1 ++ [Stmt.ifS (lowerE d c k).2.1 bt be]) ++ rest
              = (lowerE d c k).1 ++ (Stmt.ifS (lowerE d c k).2.1 bt be :: rest) := by simp
          rw [e1, e2, hex]
          apply exec_if_normal N τ1 τ2 _ (.bool bc) bt be rest hsim1.budget hev1
          have hfu : N = (N - (if τ1.truthy (.bool bc) = true then bt else be).length)
              + (if τ1.truthy (.bool bc) = true then bt else be).length := by omega
          have := (hrunsb [] (N - (if τ1.truthy (.bool bc) = true then bt else be).length) (by omega)).1 rfl
          rw [← hfu, List.append_nil] at this
          rw [this]
          have hpos : N - (if τ1.truthy (.bool bc) = true then bt else be).length
              = (N - (if τ1.truthy (.bool bc) = true then bt else be).length - 1) + 1 := by omega
          rw [hpos]
          exact exec_nil _ τ2
        | ret w =>
          simp only [Prod.mk.injEq] at h
          obtain ⟨rfl, rfl⟩ := h
          refine ⟨τ2, hs2, hof2, ?_⟩
          intro rest N hN
          rw [costL_append, costL_append] at hN
          simp only [costL, Nat.add_zero] at hN
          refine ⟨fun hc => (by cases hc), ?_⟩
          intro w' hw'
          cases hw'
          have e1 : N + (((lowerE d c k).1 ++ [Stmt.ifS (lowerE d c k).2.1 bt be]) ++ (lowerB d B' k3).1).length
              = ((N + (lowerB d B' k3).1.length) + 1) + (lowerE d c k).1.length := by simp; omega
          have e2 : (((lowerE d c k).1 ++ [Stmt.ifS (lowerE d c k).2.1 bt be]) ++ (lowerB d B' k3).1) ++ rest
              = (lowerE d c k).1 ++ (Stmt.ifS (lowerE d c k).2.1 bt be :: ((lowerB d B' k3).1 ++ rest)) := by
            simp
          rw [e1, e2, hex]
          apply exec_if_ret _ τ1 τ2 _ (.bool bc) w bt be _ hsim1.budget hev1
          have hfu : N + (lowerB d B' k3).1.length
              = (N + (lowerB d B' k3).1.length - (if τ1.truthy (.bool bc) = true then bt else be).length)
                + (if τ1.truthy (.bool bc) = true then bt else be).length := by omega
          have := (hrunsb [] (N + (lowerB d B' k3).1.length - (if τ1.truthy (.bool bc) = true then bt else be).length)
            (by omega)).2 w rfl
          rw [← hfu, List.append_nil] at this
          exact this
        | brk => rcases hob with hc | ⟨w, hc⟩ <;> cases hc
        | cont => rcases hob with hc | ⟨w, hc⟩ <;> cases hc
        | err er => rcases hob with hc | ⟨w, hc⟩ <;> cases hc
      | newArr _ _ => simp [stmtFrag] at hsf
      | newRec _ _ _ => simp [stmtFrag] at hsf
      | setIdx _ _ _ => simp [stmtFrag] at hsf
      | setFld _ _ _ => simp [stmtFrag] at hsf
      | whileS _ _ => simp [stmtFrag] at hsf
      | forS _ _ _ _ => simp [stmtFrag] at hsf
      | forIter _ _ _ => simp [stmtFrag] at hsf
      | brk => simp [stmtFrag] at hsf
      | cont => simp [stmtFrag] at hsf
      | out e =>
        simp only [stmtFrag] at hsf
        simp only [execS] at h
        cases h1 : evalE fns f σ e with
        | mk r1 σ1 =>
        rw [h1] at h
        cases r1 with
        | error er => exact absurd (hbad h) id
        | ok v =>
        simp only at h
        obtain ⟨τ2, hs2, hhead⟩ := head_out d hd fns f e k σ τ σ1 v hsf hnS h1 hs hof
        have hst1 : σ1 = σ := evalE_pure_state fns f e σ σ1 _ hsf h1
        have hof2 : ({ σ1 with out := σ1.render v :: σ1.out } : State).lookup d.outName
            = .ok (.builtin d.outName) := by
          rw [lookup_congr σ1 { σ1 with out := σ1.render v :: σ1.out } rfl rfl d.outName, hst1]; exact hof
        obtain ⟨τ', hs', hof', hruns⟩ := ih B' hBf hnB hnnB (lowerS d (.out e) k).2 _ τ2 σ' o h ho hs2 hof2
        refine ⟨τ', hs', hof', ?_⟩
        by_cases hes : d.exprStmt = true
        · have hlow : (lowerS d (.out e) k).1 = (lowerE d (.call d.outName [e]) k).1 ++ [Stmt.pass] := by
            simp only [lowerS, hes, if_true]
          rw [hlow]
          refine seq_combine _ _ τ τ2 τ' o ?_ hruns
          intro rest N _
          have e1 : N + ((lowerE d (.call d.outName [e]) k).1 ++ [Stmt.pass]).length
              = (N + 1) + (lowerE d (.call d.outName [e]) k).1.length := by simp; omega
          have e2 : ((lowerE d (.call d.outName [e]) k).1 ++ [Stmt.pass]) ++ rest
              = (lowerE d (.call d.outName [e]) k).1 ++ (Stmt.pass :: rest) := by simp
          rw [e1, e2, hhead]
          exact exec_pass N τ2 rest hs2.sim.budget
        · have hlow : (lowerS d (.out e) k).1 = (lowerE d (.call d.outName [e]) k).1 := by
            simp only [lowerS, hes, Bool.false_eq_true, if_false]
          rw [hlow]
          exact seq_combine _ _ τ τ2 τ' o (fun rest N _ => hhead rest N) hruns

end LianVerif.LowerCore
