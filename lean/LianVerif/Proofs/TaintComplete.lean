/-
Part B — completeness of the worklist (C10): every `Live` node is dequeued while it carries the tag.

The run is instrumented with a ghost list `lp` of the nodes dequeued hot (`runG`); its first
component is the model's `run`.  `Inv` is an inductive invariant of `stepG`; when the worklist is
empty it makes `lp` closed under `LiveInit` / `LiveStep`.
-/
import LianVerif.Proofs.Taint

namespace LianVerif.Taint
open LianVerif.Sfg LianVerif.TaintRules LianVerif.Reach

/-! ### the hypotheses as propositions -/

/-- in-lists and out-lists describe the same edges -/
def Consistent (g : Graph) : Prop :=
  (∀ u e, e ∈ g.outE u → ({ peer := u, etype := e.etype, pos := e.pos } : Edge) ∈ g.inE e.peer) ∧
  (∀ u e, e ∈ g.inE u → ({ peer := u, etype := e.etype, pos := e.pos } : Edge) ∈ g.outE e.peer)

def EdgeTyped (g : Graph) : Prop :=
  ∀ u e, e ∈ g.outE u →
    (e.etype = E_SYMSTATE → g.kindOf u = K_SYMBOL ∧ g.kindOf e.peer = K_STATE) ∧
    (e.etype = E_USED → g.kindOf e.peer = K_STMT)

theorem outE_of_ge {g : Graph} {u : Nat} (h : g.out.length ≤ u) : g.outE u = [] := by
  unfold Graph.outE
  simp [List.getD_eq_getElem?_getD, List.getElem?_eq_none h]

theorem inE_of_ge {g : Graph} {u : Nat} (h : g.inn.length ≤ u) : g.inE u = [] := by
  unfold Graph.inE
  simp [List.getD_eq_getElem?_getD, List.getElem?_eq_none h]

theorem consistent_of_wf {g : Graph} (h : g.wf = true) : Consistent g := by
  unfold Graph.wf at h
  simp only [Bool.and_eq_true, beq_iff_eq, List.all_eq_true, List.mem_range, decide_eq_true_eq] at h
  obtain ⟨⟨ho, hi⟩, hall⟩ := h
  constructor
  · intro u e he
    by_cases hu : u < g.nodes.length
    · exact List.contains_iff_mem.1 ((hall u hu).1 e he).2
    · rw [outE_of_ge (by omega)] at he; exact absurd he (by simp)
  · intro u e he
    by_cases hu : u < g.nodes.length
    · exact List.contains_iff_mem.1 ((hall u hu).2 e he).2
    · rw [inE_of_ge (by omega)] at he; exact absurd he (by simp)

theorem edgeTyped_of_check {g : Graph} (hw : g.wf = true) (h : edgeTyped g = true) : EdgeTyped g := by
  have hlen : g.out.length = g.nodes.length := by
    unfold Graph.wf at hw
    simp only [Bool.and_eq_true, beq_iff_eq] at hw
    exact hw.1.1
  unfold edgeTyped at h
  simp only [List.all_eq_true, List.mem_range, Bool.and_eq_true, Bool.or_eq_true, bne_iff_ne,
    ne_eq, beq_iff_eq] at h
  intro u e he
  by_cases hu : u < g.size
  · have := h u hu e he
    constructor
    · intro het
      rcases this.1 with h1 | h1
      · exact absurd het h1
      · exact h1
    · intro het
      rcases this.2 with h1 | h1
      · exact absurd het h1
      · exact h1
  · rw [outE_of_ge (by unfold Graph.size at hu; omega)] at he; exact absurd he (by simp)

/-! ### monotone growth of the state inside one `_propagate_from_*` call -/

/-- tags and worklist only grow, `_processed_nodes` is untouched -/
structure Le (s t : PState) : Prop where
  sym : ∀ i ∈ s.symT, i ∈ t.symT
  st : ∀ i ∈ s.stT, i ∈ t.stT
  wl : ∀ v ∈ s.wl, v ∈ t.wl
  proc : t.processed = s.processed

theorem Le.refl (s : PState) : Le s s := ⟨fun _ h => h, fun _ h => h, fun _ h => h, rfl⟩

theorem Le.trans {a b c : PState} (h1 : Le a b) (h2 : Le b c) : Le a c :=
  ⟨fun i h => h2.sym i (h1.sym i h), fun i h => h2.st i (h1.st i h), fun v h => h2.wl v (h1.wl v h),
   by rw [h2.proc, h1.proc]⟩

theorem le_enqueue (s : PState) (v : Nat) : Le s (enqueue s v) :=
  ⟨by simp, by simp, fun _ h => mem_enqueue_of_mem h, by simp⟩

theorem le_applyAct (g : Graph) (s : PState) (a : Act) : Le s (applyAct g s a) := by
  cases a with
  | tagSym v =>
    simp only [applyAct]
    split
    · exact Le.refl s
    · exact ⟨by simp +contextual, by simp, fun x h => mem_enqueue_of_mem h, by simp⟩
  | tagSymP v =>
    simp only [applyAct]
    split
    · split
      · exact Le.refl s
      · exact le_enqueue s v
    · exact ⟨by simp +contextual, by simp, fun x h => mem_enqueue_of_mem h, by simp⟩
  | tagSt v =>
    simp only [applyAct]
    split
    · exact Le.refl s
    · exact ⟨by simp, by simp +contextual, fun x h => mem_enqueue_of_mem h, by simp⟩
  | enq v =>
    simp only [applyAct]
    exact le_enqueue s v

theorem le_foldl (g : Graph) (acts : List Act) : ∀ (s : PState), Le s (acts.foldl (applyAct g) s) := by
  induction acts with
  | nil => intro s; exact Le.refl s
  | cons a acts ih => intro s; exact Le.trans (le_applyAct g s a) (ih _)

theorem nodeTag_mono {g : Graph} {s t : PState} (hsym : ∀ i ∈ s.symT, i ∈ t.symT)
    (hst : ∀ i ∈ s.stT, i ∈ t.stT) {u : Nat} (h : nodeTag g s u = true) : nodeTag g t u = true := by
  unfold nodeTag at *
  split
  · rename_i hk
    rw [if_pos hk] at h
    exact List.contains_iff_mem.2 (hsym _ (List.contains_iff_mem.1 h))
  · rename_i hk
    rw [if_neg hk] at h
    split
    · rename_i hk2
      rw [if_pos hk2] at h
      exact List.contains_iff_mem.2 (hst _ (List.contains_iff_mem.1 h))
    · rename_i hk2
      rw [if_neg hk2] at h
      split
      · rename_i hk3
        rw [if_pos hk3] at h
        rw [List.any_eq_true] at h ⊢
        obtain ⟨e, he, hp⟩ := h
        rw [Bool.and_eq_true] at hp
        exact ⟨e, he, by rw [Bool.and_eq_true]; exact ⟨hp.1,
          List.contains_iff_mem.2 (hsym _ (List.contains_iff_mem.1 hp.2))⟩⟩
      · rename_i hk3
        rw [if_neg hk3] at h
        exact h

theorem nodeTag_le {g : Graph} {s t : PState} (h : Le s t) {u : Nat} (hu : nodeTag g s u = true) :
    nodeTag g t u = true := nodeTag_mono h.sym h.st hu

theorem nodeTag_symbol {g : Graph} {s : PState} {u : Nat} (hk : g.kindOf u = K_SYMBOL) :
    nodeTag g s u = s.symT.contains (g.nid u) := by
  unfold nodeTag
  simp [hk]

theorem nodeTag_state {g : Graph} {s : PState} {u : Nat} (hk : g.kindOf u = K_STATE) :
    nodeTag g s u = s.stT.contains (g.nid u) := by
  unfold nodeTag
  rw [hk]
  have h1 : (K_STATE == K_SYMBOL) = false := by decide
  simp only [h1, Bool.false_eq_true, if_false, beq_self_eq_true, if_true]

theorem nodeTag_stmt {g : Graph} {s : PState} {u : Nat} (hk : g.kindOf u = K_STMT) :
    nodeTag g s u = (g.inE u).any (fun e => e.etype == E_USED && s.symT.contains (g.nid e.peer)) := by
  unfold nodeTag
  rw [hk]
  have h1 : (K_STMT == K_SYMBOL) = false := by decide
  have h2 : (K_STMT == K_STATE) = false := by decide
  simp only [h1, h2, Bool.false_eq_true, if_false, beq_self_eq_true, if_true]

/-! ### which nodes the actions of a node can enqueue -/

def ActOK (g : Graph) : Act → Prop
  | .tagSym v => symOwner g v = true
  | .tagSymP v => symOwner g v = true
  | .tagSt v => g.kindOf v = K_STATE
  | .enq v => g.kindOf v = K_STMT

theorem symOwner_of_symbol {g : Graph} {v : Nat} (h : g.kindOf v = K_SYMBOL) : symOwner g v = true := by
  unfold symOwner; simp [h]

theorem actsOf_ok {g : Graph} {prm : Params} {u : Nat} {a : Act} (hc : Consistent g)
    (ht : EdgeTyped g) (ha : a ∈ actsOf g prm u) : ActOK g a := by
  unfold actsOf at ha
  split at ha
  · unfold actsSymbol at ha
    rw [List.mem_filterMap] at ha
    obtain ⟨e, he, hea⟩ := ha
    split at hea
    · rename_i h1
      simp only [Option.some.injEq] at hea; subst hea
      exact ((ht u e he).1 (by simpa using h1)).2
    · split at hea
      · rename_i h2
        simp only [Option.some.injEq] at hea; subst hea
        exact (ht u e he).2 (by simpa using h2)
      · split at hea
        · split at hea
          · rename_i h4
            simp only [Option.some.injEq] at hea; subst hea
            exact symOwner_of_symbol (by simpa using h4)
          · exact absurd hea (by simp)
        · exact absurd hea (by simp)
  · split at ha
    · unfold actsState at ha
      rw [List.mem_append] at ha
      rcases ha with ha | ha
      · rw [List.mem_filterMap] at ha
        obtain ⟨e, he, hea⟩ := ha
        split at hea
        · rename_i h1
          simp only [Option.some.injEq] at hea; subst hea
          have hout := hc.2 u e he
          rw [Bool.and_eq_true] at h1
          have h1 := h1.1
          simp only [Bool.or_eq_true, beq_iff_eq] at h1
          rcases h1 with h1 | h1
          · exact symOwner_of_symbol ((ht e.peer _ hout).1 h1).1
          · show symOwner g e.peer = true
            unfold symOwner
            simp only [Bool.or_eq_true, List.any_eq_true, beq_iff_eq]
            exact Or.inl (Or.inr ⟨_, hout, h1⟩)
        · exact absurd hea (by simp)
      · rw [List.mem_filterMap] at ha
        obtain ⟨e, he, hea⟩ := ha
        split at hea
        · rename_i h1
          simp only [Option.some.injEq] at hea; subst hea
          rw [Bool.and_eq_true] at h1
          exact (by simpa using h1.1 : g.kindOf e.peer = K_STATE)
        · exact absurd hea (by simp)
    · split at ha
      · unfold actsStmt at ha
        split at ha
        · rw [List.mem_append] at ha
          rcases ha with ha | ha
          · rw [List.mem_filterMap] at ha
            obtain ⟨e, he, hea⟩ := ha
            split at hea
            · rename_i h1
              simp only [Option.some.injEq] at hea; subst hea
              have hin := hc.1 u e he
              show symOwner g e.peer = true
              unfold symOwner
              simp only [Bool.or_eq_true, List.any_eq_true, beq_iff_eq]
              exact Or.inr ⟨_, hin, by simpa using h1⟩
            · exact absurd hea (by simp)
          · split at ha
            · rw [List.mem_filterMap] at ha
              obtain ⟨e, he, hea⟩ := ha
              split at hea
              · rename_i h1
                simp only [Option.some.injEq] at hea; subst hea
                simp only [Bool.and_eq_true, beq_iff_eq] at h1
                exact symOwner_of_symbol h1.2
              · exact absurd hea (by simp)
            · exact absurd ha (by simp)
        · exact absurd ha (by simp)
      · exact absurd ha (by simp)

/-! ### the invariant -/

/-- `L`: ghost list of the nodes dequeued hot so far (plus, inside a `_propagate_from_*` call, the
node being processed); `C`: the part of it for which closure under `LiveStep` is already known. -/
structure InvG (g : Graph) (prm : Params) (src : Nat) (s : PState) (L C : List Nat) : Prop where
  i1 : ∀ v ∈ s.wl, g.kindOf v = K_SYMBOL → g.nid v ∈ s.symT
  p0 : ∀ u ∈ L, u ∈ s.processed ∧ nodeTag g s u = true
  p1 : ∀ v ∈ s.processed, g.kindOf v = K_SYMBOL → v ∈ L
  p2 : ∀ v, g.kindOf v = K_STATE → UniqueSt g v → g.nid v ∈ s.stT → v ∈ L ∨ v ∈ s.wl
  p3 : ∀ v, g.kindOf v = K_SYMBOL → UniqueSym g v → g.nid v ∈ s.symT → v ∈ L ∨ v ∈ s.wl
  cl : ∀ u ∈ C, ∀ v, LiveStep g prm u v → v ∈ L ∨ (v ∈ s.wl ∧ nodeTag g s v = true)
  base : ∀ v, LiveInit g src v → v ∈ L ∨ (v ∈ s.wl ∧ nodeTag g s v = true)
  q : ∀ u ∈ C, ∀ l, Conseq g prm u l → TaggedLoc s l

variable {g : Graph} {prm : Params} {src : Nat}

theorem taggedLoc_le {s t : PState} (h : Le s t) {l : Loc} (hl : TaggedLoc s l) : TaggedLoc t l := by
  rcases hl with ⟨h1, h2⟩ | ⟨h1, h2⟩
  · exact Or.inl ⟨h1, h.sym _ h2⟩
  · exact Or.inr ⟨h1, h.st _ h2⟩

theorem inv_enqueue {s : PState} {L C : List Nat} {v : Nat} (h : InvG g prm src s L C)
    (hv : g.kindOf v = K_SYMBOL → g.nid v ∈ s.symT) : InvG g prm src (enqueue s v) L C := by
  have hle := le_enqueue s v
  refine ⟨?_, ?_, ?_, ?_, ?_, ?_, ?_, fun u hu l hl => taggedLoc_le hle (h.q u hu l hl)⟩
  · intro x hx hk
    rw [enqueue_symT]
    rcases mem_enqueue_iff.1 hx with hx | rfl
    · exact h.i1 x hx hk
    · exact hv hk
  · intro u hu
    exact ⟨by rw [enqueue_processed]; exact (h.p0 u hu).1, nodeTag_le hle (h.p0 u hu).2⟩
  · intro x hx hk
    rw [enqueue_processed] at hx
    exact h.p1 x hx hk
  · intro x hk hu hx
    rw [enqueue_stT] at hx
    rcases h.p2 x hk hu hx with h1 | h1
    · exact Or.inl h1
    · exact Or.inr (mem_enqueue_of_mem h1)
  · intro x hk hu hx
    rw [enqueue_symT] at hx
    rcases h.p3 x hk hu hx with h1 | h1
    · exact Or.inl h1
    · exact Or.inr (mem_enqueue_of_mem h1)
  · intro u hu x hs
    rcases h.cl u hu x hs with h1 | ⟨h1, h2⟩
    · exact Or.inl h1
    · exact Or.inr ⟨mem_enqueue_of_mem h1, nodeTag_le hle h2⟩
  · intro x hx
    rcases h.base x hx with h1 | ⟨h1, h2⟩
    · exact Or.inl h1
    · exact Or.inr ⟨mem_enqueue_of_mem h1, nodeTag_le hle h2⟩

theorem inv_tagSym {s : PState} {L C : List Nat} {v : Nat} (h : InvG g prm src s L C)
    (hv : symOwner g v = true) :
    InvG g prm src (enqueue { s with symT := g.nid v :: s.symT } v) L C := by
  have hle : Le s (enqueue { s with symT := g.nid v :: s.symT } v) :=
    ⟨by simp +contextual, by simp, fun x hx => mem_enqueue_of_mem hx, by simp⟩
  refine ⟨?_, ?_, ?_, ?_, ?_, ?_, ?_, fun u hu l hl => taggedLoc_le hle (h.q u hu l hl)⟩
  · intro x hx hk
    rw [enqueue_symT]
    rcases mem_enqueue_iff.1 hx with hx | rfl
    · exact List.mem_cons_of_mem _ (h.i1 x hx hk)
    · exact List.mem_cons_self ..
  · intro u hu
    exact ⟨by rw [hle.proc]; exact (h.p0 u hu).1, nodeTag_le hle (h.p0 u hu).2⟩
  · intro x hx hk
    rw [hle.proc] at hx
    exact h.p1 x hx hk
  · intro x hk hu hx
    rw [enqueue_stT] at hx
    rcases h.p2 x hk hu hx with h1 | h1
    · exact Or.inl h1
    · exact Or.inr (hle.wl x h1)
  · intro x hk hu hx
    rw [enqueue_symT, List.mem_cons] at hx
    rcases hx with hx | hx
    · have : v = x := hu v hx.symm hv
      subst this
      exact Or.inr (mem_enqueue_self _ _)
    · rcases h.p3 x hk hu hx with h1 | h1
      · exact Or.inl h1
      · exact Or.inr (hle.wl x h1)
  · intro u hu x hs
    rcases h.cl u hu x hs with h1 | ⟨h1, h2⟩
    · exact Or.inl h1
    · exact Or.inr ⟨hle.wl x h1, nodeTag_le hle h2⟩
  · intro x hx
    rcases h.base x hx with h1 | ⟨h1, h2⟩
    · exact Or.inl h1
    · exact Or.inr ⟨hle.wl x h1, nodeTag_le hle h2⟩

theorem inv_tagSt {s : PState} {L C : List Nat} {v : Nat} (h : InvG g prm src s L C)
    (hv : g.kindOf v = K_STATE) :
    InvG g prm src (enqueue { s with stT := g.nid v :: s.stT } v) L C := by
  have hle : Le s (enqueue { s with stT := g.nid v :: s.stT } v) :=
    ⟨by simp, by simp +contextual, fun x hx => mem_enqueue_of_mem hx, by simp⟩
  refine ⟨?_, ?_, ?_, ?_, ?_, ?_, ?_, fun u hu l hl => taggedLoc_le hle (h.q u hu l hl)⟩
  · intro x hx hk
    rw [enqueue_symT]
    rcases mem_enqueue_iff.1 hx with hx | rfl
    · exact h.i1 x hx hk
    · rw [hv] at hk; exact absurd hk (by decide)
  · intro u hu
    exact ⟨by rw [hle.proc]; exact (h.p0 u hu).1, nodeTag_le hle (h.p0 u hu).2⟩
  · intro x hx hk
    rw [hle.proc] at hx
    exact h.p1 x hx hk
  · intro x hk hu hx
    rw [enqueue_stT, List.mem_cons] at hx
    rcases hx with hx | hx
    · have : v = x := hu v hx.symm hv
      subst this
      exact Or.inr (mem_enqueue_self _ _)
    · rcases h.p2 x hk hu hx with h1 | h1
      · exact Or.inl h1
      · exact Or.inr (hle.wl x h1)
  · intro x hk hu hx
    rw [enqueue_symT] at hx
    rcases h.p3 x hk hu hx with h1 | h1
    · exact Or.inl h1
    · exact Or.inr (hle.wl x h1)
  · intro u hu x hs
    rcases h.cl u hu x hs with h1 | ⟨h1, h2⟩
    · exact Or.inl h1
    · exact Or.inr ⟨hle.wl x h1, nodeTag_le hle h2⟩
  · intro x hx
    rcases h.base x hx with h1 | ⟨h1, h2⟩
    · exact Or.inl h1
    · exact Or.inr ⟨hle.wl x h1, nodeTag_le hle h2⟩

theorem inv_applyAct {s : PState} {L C : List Nat} {a : Act} (h : InvG g prm src s L C)
    (ha : ActOK g a) : InvG g prm src (applyAct g s a) L C := by
  cases a with
  | tagSym v =>
    simp only [applyAct]
    split
    · exact h
    · exact inv_tagSym h ha
  | tagSymP v =>
    simp only [applyAct]
    split
    · rename_i hin
      split
      · exact h
      · exact inv_enqueue h (fun _ => List.contains_iff_mem.1 hin)
    · exact inv_tagSym h ha
  | tagSt v =>
    simp only [applyAct]
    split
    · exact h
    · exact inv_tagSt h ha
  | enq v =>
    simp only [applyAct]
    apply inv_enqueue h
    intro hk
    have : g.kindOf v = K_STMT := ha
    rw [this] at hk
    exact absurd hk (by decide)

theorem inv_foldl (acts : List Act) : ∀ {s : PState} {L C : List Nat}, InvG g prm src s L C →
    (∀ a ∈ acts, ActOK g a) → InvG g prm src (acts.foldl (applyAct g) s) L C := by
  induction acts with
  | nil => intro s L C h _; exact h
  | cons a acts ih =>
    intro s L C h hok
    simp only [List.foldl_cons]
    exact ih (inv_applyAct h (hok a (List.mem_cons_self ..)))
      (fun b hb => hok b (List.mem_cons_of_mem _ hb))

/-! ### what every action has achieved when the loop over the edges is finished -/

theorem post_enq {acts : List Act} {v : Nat} : ∀ {s : PState}, Act.enq v ∈ acts →
    v ∈ (acts.foldl (applyAct g) s).wl := by
  induction acts with
  | nil => intro s h; exact absurd h (by simp)
  | cons a acts ih =>
    intro s h
    simp only [List.foldl_cons]
    rcases List.mem_cons.1 h with rfl | h
    · exact (le_foldl g acts _).wl v (by simp only [applyAct]; exact mem_enqueue_self _ _)
    · exact ih h

theorem post_tagSt {acts : List Act} {v : Nat} : ∀ {s : PState}, Act.tagSt v ∈ acts →
    g.nid v ∈ (acts.foldl (applyAct g) s).stT := by
  induction acts with
  | nil => intro s h; exact absurd h (by simp)
  | cons a acts ih =>
    intro s h
    simp only [List.foldl_cons]
    rcases List.mem_cons.1 h with rfl | h
    · apply (le_foldl g acts _).st
      simp only [applyAct]
      split
      · rename_i hin; exact List.contains_iff_mem.1 hin
      · simp
    · exact ih h

theorem post_tagSym {acts : List Act} {v : Nat} : ∀ {s : PState}, Act.tagSym v ∈ acts →
    g.nid v ∈ (acts.foldl (applyAct g) s).symT := by
  induction acts with
  | nil => intro s h; exact absurd h (by simp)
  | cons a acts ih =>
    intro s h
    simp only [List.foldl_cons]
    rcases List.mem_cons.1 h with rfl | h
    · apply (le_foldl g acts _).sym
      simp only [applyAct]
      split
      · rename_i hin; exact List.contains_iff_mem.1 hin
      · simp
    · exact ih h

theorem post_tagSymP {acts : List Act} {v : Nat} : ∀ {s : PState}, Act.tagSymP v ∈ acts →
    g.nid v ∈ (acts.foldl (applyAct g) s).symT ∧
    (v ∈ (acts.foldl (applyAct g) s).wl ∨ v ∈ s.processed) := by
  induction acts with
  | nil => intro s h; exact absurd h (by simp)
  | cons a acts ih =>
    intro s h
    simp only [List.foldl_cons]
    rcases List.mem_cons.1 h with rfl | h
    · have hle := le_foldl g acts (applyAct g s (Act.tagSymP v))
      simp only [applyAct] at hle ⊢
      split
      · rename_i hin
        split
        · rename_i hp
          rw [if_pos hin, if_pos hp] at hle
          exact ⟨hle.sym _ (List.contains_iff_mem.1 hin), Or.inr (List.contains_iff_mem.1 hp)⟩
        · rename_i hp
          rw [if_pos hin, if_neg hp] at hle
          exact ⟨hle.sym _ (by simpa using List.contains_iff_mem.1 hin),
            Or.inl (hle.wl _ (mem_enqueue_self _ _))⟩
      · rename_i hin
        rw [if_neg hin] at hle
        exact ⟨hle.sym _ (by simp), Or.inl (hle.wl _ (mem_enqueue_self _ _))⟩
    · obtain ⟨h1, h2⟩ := ih (s := applyAct g s a) h
      refine ⟨h1, ?_⟩
      rcases h2 with h2 | h2
      · exact Or.inl h2
      · rw [(le_applyAct g s a).proc] at h2; exact Or.inr h2

/-! ### every `LiveStep` out of a node corresponds to one of its actions -/

theorem consts_ne : E_USED ≠ E_SYMSTATE ∧ E_FLOW ≠ E_SYMSTATE ∧ E_FLOW ≠ E_USED ∧
    E_IFLOW ≠ E_SYMSTATE ∧ E_IFLOW ≠ E_USED := by decide

theorem act_use {u : Nat} {e : Edge} (hk : g.kindOf u = K_SYMBOL) (he : e ∈ g.outE u)
    (het : e.etype = E_USED) : Act.enq e.peer ∈ actsOf g prm u := by
  unfold actsOf
  rw [if_pos (by simp [hk])]
  unfold actsSymbol
  rw [List.mem_filterMap]
  refine ⟨e, he, ?_⟩
  have h1 : (e.etype == E_SYMSTATE) = false := by rw [het]; decide
  have h2 : (e.etype == E_USED) = true := by rw [het]; decide
  simp only [h1, h2, Bool.false_eq_true, if_false, if_true]

theorem act_symState {u : Nat} {e : Edge} (hk : g.kindOf u = K_SYMBOL) (he : e ∈ g.outE u)
    (het : e.etype = E_SYMSTATE) : Act.tagSt e.peer ∈ actsOf g prm u := by
  unfold actsOf
  rw [if_pos (by simp [hk])]
  unfold actsSymbol
  rw [List.mem_filterMap]
  exact ⟨e, he, by simp [het]⟩

theorem act_flow {u : Nat} {e : Edge} (hk : g.kindOf u = K_SYMBOL) (he : e ∈ g.outE u)
    (het : e.etype = E_FLOW ∨ e.etype = E_IFLOW) (hp : g.kindOf e.peer = K_SYMBOL) :
    Act.tagSym e.peer ∈ actsOf g prm u := by
  unfold actsOf
  rw [if_pos (by simp [hk])]
  unfold actsSymbol
  rw [List.mem_filterMap]
  refine ⟨e, he, ?_⟩
  have h1 : (e.etype == E_SYMSTATE) = false := by
    rcases het with h | h <;> rw [h] <;> decide
  have h2 : (e.etype == E_USED) = false := by
    rcases het with h | h <;> rw [h] <;> decide
  have h3 : (e.etype == E_FLOW || e.etype == E_IFLOW) = true := by
    rcases het with h | h <;> simp [h]
  simp [h1, h2, h3, hp]

theorem kind_state_not_symbol {u : Nat} (hk : g.kindOf u = K_STATE) :
    (g.kindOf u == K_SYMBOL) = false := by rw [hk]; decide

theorem kind_stmt_not {u : Nat} (hk : g.kindOf u = K_STMT) :
    (g.kindOf u == K_SYMBOL) = false ∧ (g.kindOf u == K_STATE) = false := by
  rw [hk]; exact ⟨by decide, by decide⟩

theorem act_stateUp {u : Nat} {e : Edge} (hk : g.kindOf u = K_STATE) (he : e ∈ g.inE u)
    (het : e.etype = E_SYMSTATE ∨ e.etype = E_INCL)
    (hs : prm.stateUpSymOnly = true → g.kindOf e.peer = K_SYMBOL) :
    Act.tagSym e.peer ∈ actsOf g prm u := by
  unfold actsOf
  rw [if_neg (by simp [kind_state_not_symbol hk]), if_pos (by simp [hk])]
  unfold actsState
  rw [List.mem_append]
  left
  rw [List.mem_filterMap]
  refine ⟨e, he, ?_⟩
  have h3 : (e.etype == E_SYMSTATE || e.etype == E_INCL) = true := by
    rcases het with h | h <;> simp [h]
  have h4 : (!prm.stateUpSymOnly || g.kindOf e.peer == K_SYMBOL) = true := by
    cases hso : prm.stateUpSymOnly
    · simp
    · simp [hs hso]
  simp [h3, h4]

theorem act_stateDown {u : Nat} {e : Edge} (hk : g.kindOf u = K_STATE) (he : e ∈ g.outE u)
    (hp : g.kindOf e.peer = K_STATE) (het : e.etype = E_INCL ∨ e.etype = E_IINCL) :
    Act.tagSt e.peer ∈ actsOf g prm u := by
  unfold actsOf
  rw [if_neg (by simp [kind_state_not_symbol hk]), if_pos (by simp [hk])]
  unfold actsState
  rw [List.mem_append]
  right
  rw [List.mem_filterMap]
  refine ⟨e, he, ?_⟩
  have h3 : (e.etype == E_INCL || e.etype == E_IINCL) = true := by
    rcases het with h | h <;> simp [h]
  simp [h3, hp]

theorem act_defn {u : Nat} {e : Edge} (hk : g.kindOf u = K_STMT)
    (hp : propagates prm (g.node u).name = true) (he : e ∈ g.outE u) (het : e.etype = E_DEFINED) :
    Act.tagSymP e.peer ∈ actsOf g prm u := by
  unfold actsOf
  rw [if_neg (by simp [(kind_stmt_not hk).1]), if_neg (by simp [(kind_stmt_not hk).2]),
    if_pos (by simp [hk])]
  unfold actsStmt
  rw [if_pos hp, List.mem_append]
  left
  rw [List.mem_filterMap]
  exact ⟨e, he, by simp [het]⟩

theorem act_recv {u : Nat} {e : Edge} (hk : g.kindOf u = K_STMT)
    (hp : propagates prm (g.node u).name = true) (hn : (g.node u).name = "object_call_stmt")
    (he : e ∈ g.inE u) (het : e.etype = E_USED) (hpos : e.pos = 0)
    (hpk : g.kindOf e.peer = K_SYMBOL) : Act.tagSymP e.peer ∈ actsOf g prm u := by
  unfold actsOf
  rw [if_neg (by simp [(kind_stmt_not hk).1]), if_neg (by simp [(kind_stmt_not hk).2]),
    if_pos (by simp [hk])]
  unfold actsStmt
  rw [if_pos hp, List.mem_append]
  right
  rw [if_pos (by simp [hn]), List.mem_filterMap]
  exact ⟨e, he, by simp [het, hpos, hpk]⟩

/-- when the loop over the edges of a node is finished, all its consequences carry the tag -/
theorem conseq_tagged {s1 : PState} {x : Nat} {l : Loc} (hl : Conseq g prm x l) :
    TaggedLoc ((actsOf g prm x).foldl (applyAct g) s1) l := by
  cases hl with
  | symState hk he het => exact Or.inr ⟨rfl, post_tagSt (act_symState hk he het)⟩
  | symFlow hk he het hpk => exact Or.inl ⟨rfl, post_tagSym (act_flow hk he het hpk)⟩
  | stateUp hk he het hs => exact Or.inl ⟨rfl, post_tagSym (act_stateUp hk he het hs)⟩
  | stateDown hk he hpk het => exact Or.inr ⟨rfl, post_tagSt (act_stateDown hk he hpk het)⟩
  | stmtDef hk hp he het => exact Or.inl ⟨rfl, (post_tagSymP (act_defn hk hp he het)).1⟩
  | recv hk hp hn he het hpos hpk =>
    exact Or.inl ⟨rfl, (post_tagSymP (act_recv hk hp hn he het hpos hpk)).1⟩

/-- closure for the node that has just been processed -/
theorem closure_new (hc : Consistent g) (ht : EdgeTyped g) {s1 t : PState} {L C : List Nat} {x : Nat}
    (hhot : nodeTag g s1 x = true) (ht_eq : t = (actsOf g prm x).foldl (applyAct g) s1)
    (hinv : InvG g prm src t L C) :
    ∀ v, LiveStep g prm x v → v ∈ L ∨ (v ∈ t.wl ∧ nodeTag g t v = true) := by
  have hle : Le s1 t := by rw [ht_eq]; exact le_foldl g _ s1
  intro v hs
  cases hs with
  | use hk he het =>
    rename_i e
    right
    have hwl : e.peer ∈ t.wl := by rw [ht_eq]; exact post_enq (act_use hk he het)
    refine ⟨hwl, ?_⟩
    rw [nodeTag_stmt ((ht x e he).2 het), List.any_eq_true]
    refine ⟨_, hc.1 x e he, ?_⟩
    rw [nodeTag_symbol hk] at hhot
    simp only [het, beq_self_eq_true, Bool.true_and]
    exact List.contains_iff_mem.2 (hle.sym _ (List.contains_iff_mem.1 hhot))
  | defn hk hp he het hpk =>
    rename_i e
    have hpost : g.nid e.peer ∈ t.symT ∧ (e.peer ∈ t.wl ∨ e.peer ∈ s1.processed) := by
      rw [ht_eq]; exact post_tagSymP (act_defn hk hp he het)
    rcases hpost.2 with h1 | h1
    · right
      exact ⟨h1, by rw [nodeTag_symbol hpk]; exact List.contains_iff_mem.2 hpost.1⟩
    · left
      exact hinv.p1 _ (by rw [hle.proc]; exact h1) hpk
  | recv hk hp hn he het hpos hpk =>
    rename_i e
    have hpost : g.nid e.peer ∈ t.symT ∧ (e.peer ∈ t.wl ∨ e.peer ∈ s1.processed) := by
      rw [ht_eq]; exact post_tagSymP (act_recv hk hp hn he het hpos hpk)
    rcases hpost.2 with h1 | h1
    · right
      exact ⟨h1, by rw [nodeTag_symbol hpk]; exact List.contains_iff_mem.2 hpost.1⟩
    · left
      exact hinv.p1 _ (by rw [hle.proc]; exact h1) hpk
  | symState hk he het hu =>
    rename_i e
    have hks : g.kindOf e.peer = K_STATE := ((ht x e he).1 het).2
    have hpost : g.nid e.peer ∈ t.stT := by rw [ht_eq]; exact post_tagSt (act_symState hk he het)
    rcases hinv.p2 _ hks hu hpost with h1 | h1
    · exact Or.inl h1
    · exact Or.inr ⟨h1, by rw [nodeTag_state hks]; exact List.contains_iff_mem.2 hpost⟩
  | flow hk he het hpk hu =>
    rename_i e
    have hpost : g.nid e.peer ∈ t.symT := by rw [ht_eq]; exact post_tagSym (act_flow hk he het hpk)
    rcases hinv.p3 _ hpk hu hpost with h1 | h1
    · exact Or.inl h1
    · exact Or.inr ⟨h1, by rw [nodeTag_symbol hpk]; exact List.contains_iff_mem.2 hpost⟩
  | stateUp hk he het hpk hu =>
    rename_i e
    have hpost : g.nid e.peer ∈ t.symT := by rw [ht_eq]; exact post_tagSym (act_stateUp hk he het (fun _ => hpk))
    rcases hinv.p3 _ hpk hu hpost with h1 | h1
    · exact Or.inl h1
    · exact Or.inr ⟨h1, by rw [nodeTag_symbol hpk]; exact List.contains_iff_mem.2 hpost⟩
  | stateDown hk he hpk het hu =>
    rename_i e
    have hpost : g.nid e.peer ∈ t.stT := by
      rw [ht_eq]; exact post_tagSt (act_stateDown hk he hpk het)
    rcases hinv.p2 _ hpk hu hpost with h1 | h1
    · exact Or.inl h1
    · exact Or.inr ⟨h1, by rw [nodeTag_state hpk]; exact List.contains_iff_mem.2 hpost⟩

/-! ### the instrumented run -/

def stepG (g : Graph) (prm : Params) (s : PState) (lp : List Nat) : PState × List Nat :=
  match s.wl with
  | [] => (s, lp)
  | u :: rest =>
    let s1 : PState := { s with wl := rest, processed := addNode s.processed u }
    if nodeTag g s1 u then ((actsOf g prm u).foldl (applyAct g) s1, u :: lp) else (s1, lp)

def runG (g : Graph) (prm : Params) : Nat → PState → List Nat → PState × List Nat
  | 0, s, lp => (s, lp)
  | fuel + 1, s, lp =>
    if s.wl.isEmpty then (s, lp) else runG g prm fuel (stepG g prm s lp).1 (stepG g prm s lp).2

theorem stepG_fst (s : PState) (lp : List Nat) : (stepG g prm s lp).1 = step g prm s := by
  unfold stepG step
  cases s.wl with
  | nil => rfl
  | cons u rest =>
    simp only
    split <;> rfl

theorem runG_fst (fuel : Nat) : ∀ (s : PState) (lp : List Nat),
    (runG g prm fuel s lp).1 = run g prm fuel s := by
  induction fuel with
  | zero => intro s lp; rfl
  | succ n ih =>
    intro s lp
    unfold runG run
    split
    · rfl
    · rw [ih, stepG_fst]

theorem mem_addNode {l : List Nat} {x y : Nat} : y ∈ addNode l x ↔ y = x ∨ y ∈ l := by
  unfold addNode
  split
  · rename_i h
    have := List.contains_iff_mem.1 h
    constructor
    · exact Or.inr
    · rintro (rfl | h) <;> assumption
  · simp

theorem nodeTag_congr {s t : PState} (h1 : s.symT = t.symT) (h2 : s.stT = t.stT) (u : Nat) :
    nodeTag g s u = nodeTag g t u := by
  unfold nodeTag
  rw [h1, h2]

theorem inv_stepG (hc : Consistent g) (ht : EdgeTyped g) {s : PState} {lp : List Nat}
    (h : InvG g prm src s lp lp) :
    InvG g prm src (stepG g prm s lp).1 (stepG g prm s lp).2 (stepG g prm s lp).2 := by
  unfold stepG
  split
  · exact h
  · rename_i x rest hwl
    simp only
    have hmem : ∀ v, v ∈ s.wl ↔ v = x ∨ v ∈ rest := by intro v; rw [hwl]; exact List.mem_cons
    have htag : ∀ u, nodeTag g ({ s with wl := rest, processed := addNode s.processed x } : PState) u
        = nodeTag g s u := fun u => nodeTag_congr rfl rfl u
    split
    · -- the node is hot: its actions are applied
      rename_i hhot
      have mid : InvG g prm src ({ s with wl := rest, processed := addNode s.processed x } : PState)
          (x :: lp) lp := by
        refine ⟨?_, ?_, ?_, ?_, ?_, ?_, ?_, fun u hu l hl => h.q u hu l hl⟩
        · intro v hv hk
          exact h.i1 v ((hmem v).2 (Or.inr hv)) hk
        · intro u hu
          rcases List.mem_cons.1 hu with rfl | hu
          · exact ⟨mem_addNode.2 (Or.inl rfl), hhot⟩
          · exact ⟨mem_addNode.2 (Or.inr (h.p0 u hu).1), by rw [htag]; exact (h.p0 u hu).2⟩
        · intro v hv hk
          rcases mem_addNode.1 hv with rfl | hv
          · exact List.mem_cons_self ..
          · exact List.mem_cons_of_mem _ (h.p1 v hv hk)
        · intro v hk hu hv
          rcases h.p2 v hk hu hv with h1 | h1
          · exact Or.inl (List.mem_cons_of_mem _ h1)
          · rcases (hmem v).1 h1 with rfl | h1
            · exact Or.inl (List.mem_cons_self ..)
            · exact Or.inr h1
        · intro v hk hu hv
          rcases h.p3 v hk hu hv with h1 | h1
          · exact Or.inl (List.mem_cons_of_mem _ h1)
          · rcases (hmem v).1 h1 with rfl | h1
            · exact Or.inl (List.mem_cons_self ..)
            · exact Or.inr h1
        · intro u hu v hs
          rcases h.cl u hu v hs with h1 | ⟨h1, h2⟩
          · exact Or.inl (List.mem_cons_of_mem _ h1)
          · rcases (hmem v).1 h1 with rfl | h1
            · exact Or.inl (List.mem_cons_self ..)
            · exact Or.inr ⟨h1, by rw [htag]; exact h2⟩
        · intro v hv
          rcases h.base v hv with h1 | ⟨h1, h2⟩
          · exact Or.inl (List.mem_cons_of_mem _ h1)
          · rcases (hmem v).1 h1 with rfl | h1
            · exact Or.inl (List.mem_cons_self ..)
            · exact Or.inr ⟨h1, by rw [htag]; exact h2⟩
      have fin := inv_foldl (g := g) (prm := prm) (src := src) (actsOf g prm x) mid
        (fun a ha => actsOf_ok hc ht ha)
      refine ⟨fin.i1, fin.p0, fin.p1, fin.p2, fin.p3, ?_, fin.base, ?_⟩
      · intro u hu v hs
        rcases List.mem_cons.1 hu with rfl | hu
        · exact closure_new hc ht hhot rfl fin v hs
        · exact fin.cl u hu v hs
      · intro u hu l hl
        rcases List.mem_cons.1 hu with rfl | hu
        · exact conseq_tagged hl
        · exact fin.q u hu l hl
    · -- the node carries no tag: it is only moved to `_processed_nodes`
      rename_i hcold
      have hcold' : nodeTag g s x = false := by
        rw [← htag]; simpa using hcold
      refine ⟨?_, ?_, ?_, ?_, ?_, ?_, ?_, fun u hu l hl => h.q u hu l hl⟩
      · intro v hv hk
        exact h.i1 v ((hmem v).2 (Or.inr hv)) hk
      · intro u hu
        exact ⟨mem_addNode.2 (Or.inr (h.p0 u hu).1), by rw [htag]; exact (h.p0 u hu).2⟩
      · intro v hv hk
        rcases mem_addNode.1 hv with rfl | hv
        · have := h.i1 v ((hmem v).2 (Or.inl rfl)) hk
          rw [nodeTag_symbol hk, List.contains_eq_mem, decide_eq_false_iff_not] at hcold'
          exact absurd this hcold'
        · exact h.p1 v hv hk
      · intro v hk hu hv
        rcases h.p2 v hk hu hv with h1 | h1
        · exact Or.inl h1
        · rcases (hmem v).1 h1 with rfl | h1
          · rw [nodeTag_state hk, List.contains_eq_mem, decide_eq_false_iff_not] at hcold'
            exact absurd hv hcold'
          · exact Or.inr h1
      · intro v hk hu hv
        rcases h.p3 v hk hu hv with h1 | h1
        · exact Or.inl h1
        · rcases (hmem v).1 h1 with rfl | h1
          · rw [nodeTag_symbol hk, List.contains_eq_mem, decide_eq_false_iff_not] at hcold'
            exact absurd hv hcold'
          · exact Or.inr h1
      · intro u hu v hs
        rcases h.cl u hu v hs with h1 | ⟨h1, h2⟩
        · exact Or.inl h1
        · rcases (hmem v).1 h1 with rfl | h1
          · rw [hcold'] at h2; exact absurd h2 (by simp)
          · exact Or.inr ⟨h1, by rw [htag]; exact h2⟩
      · intro v hv
        rcases h.base v hv with h1 | ⟨h1, h2⟩
        · exact Or.inl h1
        · rcases (hmem v).1 h1 with rfl | h1
          · rw [hcold'] at h2; exact absurd h2 (by simp)
          · exact Or.inr ⟨h1, by rw [htag]; exact h2⟩

theorem inv_runG (hc : Consistent g) (ht : EdgeTyped g) (fuel : Nat) :
    ∀ {s : PState} {lp : List Nat}, InvG g prm src s lp lp →
      InvG g prm src (runG g prm fuel s lp).1 (runG g prm fuel s lp).2 (runG g prm fuel s lp).2 := by
  induction fuel with
  | zero => intro s lp h; exact h
  | succ n ih =>
    intro s lp h
    unfold runG
    split
    · exact h
    · exact ih (inv_stepG hc ht h)

/-! ### the initial state satisfies the invariant -/

/-- the loop of `_init_source_contamination` over the successors of a SYMBOL source -/
def initF (g : Graph) (s : PState) (e : Edge) : PState :=
  if e.etype == E_SYMSTATE then enqueue { s with stT := addId s.stT (g.nid e.peer) } e.peer else s

theorem initFold_spec (es : List Edge) : ∀ (s : PState),
    let r := es.foldl (initF g) s
    r.symT = s.symT ∧ r.processed = s.processed ∧
    (∀ v ∈ r.wl, v ∈ s.wl ∨ ∃ e ∈ es, e.etype = E_SYMSTATE ∧ v = e.peer) ∧
    (∀ i ∈ r.stT, i ∈ s.stT ∨ ∃ e ∈ es, e.etype = E_SYMSTATE ∧ i = g.nid e.peer) ∧
    (∀ e ∈ es, e.etype = E_SYMSTATE → e.peer ∈ r.wl ∧ g.nid e.peer ∈ r.stT) ∧
    (∀ v ∈ s.wl, v ∈ r.wl) ∧ (∀ i ∈ s.stT, i ∈ r.stT) := by
  induction es with
  | nil =>
    intro s
    refine ⟨rfl, rfl, fun v h => Or.inl h, fun i h => Or.inl h, ?_, fun v h => h, fun i h => h⟩
    intro e he; exact absurd he (by simp)
  | cons e es ih =>
    intro s
    simp only [List.foldl_cons]
    obtain ⟨h1, h2, h3, h4, h5, h6, h7⟩ := ih (initF g s e)
    have hsym : (initF g s e).symT = s.symT := by unfold initF; split <;> simp
    have hproc : (initF g s e).processed = s.processed := by unfold initF; split <;> simp
    have hwl : ∀ v ∈ (initF g s e).wl, v ∈ s.wl ∨ (e.etype = E_SYMSTATE ∧ v = e.peer) := by
      intro v hv
      unfold initF at hv
      split at hv
      · rename_i het
        rcases mem_enqueue_iff.1 hv with hv | rfl
        · exact Or.inl hv
        · exact Or.inr ⟨by simpa using het, rfl⟩
      · exact Or.inl hv
    have hst : ∀ i ∈ (initF g s e).stT, i ∈ s.stT ∨ (e.etype = E_SYMSTATE ∧ i = g.nid e.peer) := by
      intro i hi
      unfold initF at hi
      split at hi
      · rename_i het
        rw [enqueue_stT] at hi
        rcases mem_addId.1 hi with rfl | hi
        · exact Or.inr ⟨by simpa using het, rfl⟩
        · exact Or.inl hi
      · exact Or.inl hi
    have hwl' : ∀ v ∈ s.wl, v ∈ (initF g s e).wl := by
      intro v hv
      unfold initF
      split
      · exact mem_enqueue_of_mem hv
      · exact hv
    have hst' : ∀ i ∈ s.stT, i ∈ (initF g s e).stT := by
      intro i hi
      unfold initF
      split
      · rw [enqueue_stT]; exact mem_addId.2 (Or.inr hi)
      · exact hi
    have hnew : e.etype = E_SYMSTATE → e.peer ∈ (initF g s e).wl ∧ g.nid e.peer ∈ (initF g s e).stT := by
      intro het
      unfold initF
      rw [if_pos (by simp [het])]
      exact ⟨mem_enqueue_self _ _, by rw [enqueue_stT]; exact mem_addId.2 (Or.inl rfl)⟩
    refine ⟨by rw [h1, hsym], by rw [h2, hproc], ?_, ?_, ?_, ?_, ?_⟩
    · intro v hv
      rcases h3 v hv with hv | ⟨e', he', het, rfl⟩
      · rcases hwl v hv with hv | ⟨het, rfl⟩
        · exact Or.inl hv
        · exact Or.inr ⟨e, List.mem_cons_self .., het, rfl⟩
      · exact Or.inr ⟨e', List.mem_cons_of_mem _ he', het, rfl⟩
    · intro i hi
      rcases h4 i hi with hi | ⟨e', he', het, rfl⟩
      · rcases hst i hi with hi | ⟨het, rfl⟩
        · exact Or.inl hi
        · exact Or.inr ⟨e, List.mem_cons_self .., het, rfl⟩
      · exact Or.inr ⟨e', List.mem_cons_of_mem _ he', het, rfl⟩
    · intro e' he' het
      rcases List.mem_cons.1 he' with rfl | he'
      · exact ⟨h6 _ (hnew het).1, h7 _ (hnew het).2⟩
      · exact h5 e' he' het
    · intro v hv; exact h6 v (hwl' v hv)
    · intro i hi; exact h7 i (hst' i hi)

theorem initState_symbol (hk : g.kindOf src = K_SYMBOL) :
    initState g src = (g.outE src).foldl (initF g) { wl := [src], symT := [g.nid src] } := by
  unfold initState
  rw [if_pos (by simp [hk])]
  rfl

theorem inv_init (ht : EdgeTyped g) : InvG g prm src (initState g src) [] [] := by
  by_cases hk : g.kindOf src = K_SYMBOL
  · rw [initState_symbol hk]
    obtain ⟨h1, h2, h3, h4, h5, h6, _⟩ :=
      initFold_spec (g := g) (g.outE src) { wl := [src], symT := [g.nid src] }
    simp only at h1 h2 h3 h4 h5 h6
    refine ⟨?_, ?_, ?_, ?_, ?_, ?_, ?_, fun u hu => absurd hu (by simp)⟩
    · intro v hv hkv
      rw [h1]
      rcases h3 v hv with hv | ⟨e, he, het, rfl⟩
      · simp only [List.mem_singleton] at hv; subst hv; simp
      · have := ((ht src e he).1 het).2
        rw [this] at hkv; exact absurd hkv (by decide)
    · intro u hu; exact absurd hu (by simp)
    · intro v hv; rw [h2] at hv; exact absurd hv (by simp)
    · intro v hkv hu hv
      rcases h4 _ hv with hv | ⟨e, he, het, hi⟩
      · exact absurd hv (by simp)
      · have hks := ((ht src e he).1 het).2
        have : e.peer = v := hu e.peer hi.symm hks
        subst this
        exact Or.inr (h5 e he het).1
    · intro v hkv hu hv
      rw [h1] at hv
      simp only [List.mem_singleton] at hv
      have : src = v := hu src hv.symm (symOwner_of_symbol hk)
      subst this
      exact Or.inr (h6 _ (by simp))
    · intro u hu; exact absurd hu (by simp)
    · intro v hv
      right
      cases hv with
      | srcSym _ =>
        refine ⟨h6 _ (by simp), ?_⟩
        rw [nodeTag_symbol hk, h1]; simp
      | srcSymState hks0 he het =>
        rename_i e
        have hks := ((ht src e he).1 het).2
        refine ⟨(h5 e he het).1, ?_⟩
        rw [nodeTag_state hks]
        exact List.contains_iff_mem.2 (h5 e he het).2
      | srcState hks => rw [hk] at hks; exact absurd hks (by decide)
  · by_cases hk2 : g.kindOf src = K_STATE
    · have hinit : initState g src = { wl := [src], stT := [g.nid src] } := by
        unfold initState
        rw [if_neg (by simp [hk]), if_pos (by simp [hk2])]
      rw [hinit]
      refine ⟨?_, ?_, ?_, ?_, ?_, ?_, ?_, fun u hu => absurd hu (by simp)⟩
      · intro v hv hkv
        simp only [List.mem_singleton] at hv; subst hv
        exact absurd hkv hk
      · intro u hu; exact absurd hu (by simp)
      · intro v hv; exact absurd hv (by simp)
      · intro v hkv hu hv
        simp only [List.mem_singleton] at hv
        have : src = v := hu src hv.symm hk2
        subst this
        exact Or.inr (by simp)
      · intro v _ _ hv; exact absurd hv (by simp)
      · intro u hu; exact absurd hu (by simp)
      · intro v hv
        right
        cases hv with
        | srcSym hks => exact absurd hks hk
        | srcSymState hks _ _ => exact absurd hks hk
        | srcState _ =>
          refine ⟨by simp, ?_⟩
          rw [nodeTag_state hk2]; simp
    · have hbase : ∀ v, ¬ LiveInit g src v := by
        intro v hv
        cases hv with
        | srcSym hks => exact hk hks
        | srcSymState hks _ _ => exact hk hks
        | srcState hks => exact hk2 hks
      by_cases hk3 : g.kindOf src = K_STMT
      · have hinit : initState g src = { wl := [src] } := by
          unfold initState
          rw [if_neg (by simp [hk]), if_neg (by simp [hk2]), if_pos (by simp [hk3])]
        rw [hinit]
        refine ⟨?_, ?_, ?_, ?_, ?_, ?_, ?_, fun u hu => absurd hu (by simp)⟩
        · intro v hv hkv
          simp only [List.mem_singleton] at hv; subst hv
          exact absurd hkv hk
        · intro u hu; exact absurd hu (by simp)
        · intro v hv; exact absurd hv (by simp)
        · intro v _ _ hv; exact absurd hv (by simp)
        · intro v _ _ hv; exact absurd hv (by simp)
        · intro u hu; exact absurd hu (by simp)
        · intro v hv; exact absurd hv (hbase v)
      · have hinit : initState g src = {} := by
          unfold initState
          rw [if_neg (by simp [hk]), if_neg (by simp [hk2]), if_neg (by simp [hk3])]
        rw [hinit]
        refine ⟨?_, ?_, ?_, ?_, ?_, ?_, ?_, fun u hu => absurd hu (by simp)⟩
        · intro v hv; exact absurd hv (by simp)
        · intro u hu; exact absurd hu (by simp)
        · intro v hv; exact absurd hv (by simp)
        · intro v _ _ hv; exact absurd hv (by simp)
        · intro v _ _ hv; exact absurd hv (by simp)
        · intro u hu; exact absurd hu (by simp)
        · intro v hv; exact absurd hv (hbase v)

/-- **completeness of `propagate_taint`**: on a consistent, edge-typed SFG on which the worklist has
emptied, every `Live` node has been dequeued while carrying the tag, and every consequence of a
`Live` node carries the tag. -/
theorem live_processed_hot (hc : Consistent g) (ht : EdgeTyped g)
    (hdone : (propagate g prm src).wl = []) {u : Nat} (hl : Live g prm src u) :
    u ∈ (propagate g prm src).processed ∧ nodeTag g (propagate g prm src) u = true ∧
    ∀ l, Conseq g prm u l → TaggedLoc (propagate g prm src) l := by
  have hinv := inv_runG (prm := prm) (src := src) hc ht (fuelFor g) (inv_init ht)
  have hfst : (runG g prm (fuelFor g) (initState g src) []).1 = propagate g prm src := runG_fst _ _ _
  rw [hfst] at hinv
  have hmem : u ∈ (runG g prm (fuelFor g) (initState g src) []).2 := by
    induction hl with
    | init hi =>
      rcases hinv.base _ hi with h | ⟨h, _⟩
      · exact h
      · rw [hdone] at h; exact absurd h (by simp)
    | step _ hs ih =>
      rcases hinv.cl _ ih _ hs with h | ⟨h, _⟩
      · exact h
      · rw [hdone] at h; exact absurd h (by simp)
  exact ⟨(hinv.p0 u hmem).1, (hinv.p0 u hmem).2, hinv.q u hmem⟩

end LianVerif.Taint
