/- model "flatten": `GIRProcessing.flatten` + `add_main_func` + id allocation over units. -/
import LianVerif.Drv.GirJson
import LianVerif.Gir.Flatten
import LianVerif.Gir.WellFormed
import LianVerif.Model.MainFunc
import LianVerif.Model.LangRun

namespace LianVerif.Drv.Flatten
open Lean LianVerif.Drv LianVerif.Drv.GirJson LianVerif.Gir

def errName : FlatErr → String
  | .quit => "err:quit"
  | .exn c => "err:exception:" ++ c
  | .unrep => "err:unrepresentable"

def getParams (j : Json) : Except String (LianVerif.LangRun.Params × WfParams) := do
  let pj := fieldD j "params" (Json.mkObj [])
  let d : LianVerif.LangRun.Params := {}
  let w : WfParams := {}
  let patchOps ← getStrList pj "patchOps" d.flat.patchOps
  let exclude ← getStrList pj "exclude" d.main.exclude
  let bodyKeys ← getStrList pj "bodyKeys" w.bodyKeys
  let nonExec ← getStrList pj "nonExec" w.nonExec
  let initKeys ← getStrList pj "initKeys" w.initKeys
  let unitInit ← match pj.getObjVal? "unitInit" with
    | .ok v => getStr v
    | .error _ => pure d.main.unitInit
  let interval ← match pj.getObjVal? "interval" with
    | .ok v => getNat v
    | .error _ => pure d.interval
  pure ({ flat := { patchOps := patchOps }, main := { exclude := exclude, unitInit := unitInit },
          interval := interval },
        { bodyKeys := bodyKeys, exclude := exclude, nonExec := nonExec, initKeys := initKeys, unitInit := unitInit })

/-- request {"op": "one", "n": start id, "tree": tree, "params": {…}}
    reply   {"res": "ok", "next": n', "rows": […], "main": [… after add_main_func …], "wfgir": bool}
         or {"res": "err:…", "wfgir": bool}
    request {"op": "run", "variant": "current" | "pinned", "start": n | "maxModuleId": m,
             "units": [[unit id, tree | null | {"raised": exception class}], …]}
    reply   {"res": "ok", "units": [[unit id, rows], …], "final": n, "wfgir": [bool | null per unit]}
         or {"res": "err:…"}
    request {"op": "adjust", "ns": [n, …]}  → [adjust_node_id(n), …] -/
def handle (j : Json) : Except String Json := do
  let (P, W) ← getParams j
  let op ← getStr (fieldD j "op" (Json.str "one"))
  match op with
  | "one" =>
    let n ← getNat (← field j "n")
    let t ← getTree (← field j "tree")
    let wf := WfGir (bodyKey W) t
    match flatten P.flat n t with
    | .ok (n', rows) =>
      pure (Json.mkObj [("res", Json.str "ok"), ("next", jNat n'), ("rows", jList jRow rows),
                        ("main", jList jRow (LianVerif.MainFunc.addMainFunc P.main rows)),
                        ("wfgir", Json.bool wf)])
    | .error e => pure (Json.mkObj [("res", Json.str (errName e)), ("wfgir", Json.bool wf)])
  | "run" =>
    let start ← match j.getObjVal? "start" with
      | .ok v => getNat v
      | .error _ => do pure (LianVerif.LangRun.startId P (← getNat (← field j "maxModuleId")))
    let units ← listOf (fun u => do
      let p ← getArr u
      if p.size != 2 then throw "unit must be [id, tree | null | {\"raised\": cls}]"
      let t ← match p[1]! with
        | .null => pure (LianVerif.LangRun.Frontend.gir none)
        | tj => match tj.getObjVal? "raised" with
          | .ok c => do pure (LianVerif.LangRun.Frontend.raised (← getStr c))
          | .error _ => do pure (LianVerif.LangRun.Frontend.gir (some (← getTree tj)))
      pure (← getNat p[0]!, t)) (← field j "units")
    let variant ← getStr (fieldD j "variant" (Json.str "current"))
    let result ← match variant with
      | "current" => pure (LianVerif.LangRun.langRun P start units)
      | "pinned" => pure (LianVerif.LangRun.langRun0 P start units)
      | v => throw s!"unknown variant {v}"
    match result with
    | .ok (us, nf) =>
      pure (Json.mkObj [("res", Json.str "ok"), ("start", jNat start), ("final", jNat nf),
        ("wfgir", jList (fun (u : Nat × LianVerif.LangRun.Frontend) => match u.2 with
            | .gir (some t) => Json.bool (WfGir (bodyKey W) t)
            | _ => Json.null) units),
        ("units", jList (fun (u : Nat × Rows) => Json.arr #[jNat u.1, jList jRow u.2]) us)])
    | .error e => pure (Json.mkObj [("res", Json.str (errName e))])
  | "adjust" =>
    let ns ← listOf getNat (← field j "ns")
    pure (jList (fun n => jNat (LianVerif.LangRun.adjustNodeId P.interval n)) ns)
  | o => throw s!"unknown op {o}"

end LianVerif.Drv.Flatten
