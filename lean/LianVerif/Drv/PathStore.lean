import LianVerif.Drv.Util
import LianVerif.Model.PathStore
import LianVerif.Spec.MaxPaths

namespace LianVerif.Drv.PathStore
open Lean LianVerif.Drv LianVerif.PathStore LianVerif.MaxPaths

abbrev Site := Int × Int × Int

def getSite (j : Json) : Except String Site := do
  let a ← getArr j
  if a.size != 3 then throw "site must have 3 ints"
  pure (← getInt a[0]!, ← getInt a[1]!, ← getInt a[2]!)

def getOp (j : Json) : Except String (Op Site) := do
  let a ← getArr j
  if a.size != 2 then throw "op must be [kind, path]"
  let k ← getStr a[0]!
  let p ← listOf getSite a[1]!
  match k with
  | "add" => pure (.add p)
  | "remove" => pure (.remove p)
  | "exist" => pure (.exist p)
  | _ => throw s!"unknown op {k}"

def valid (s : Site) : Bool := decide (0 ≤ s.1) && decide (0 ≤ s.2.1) && decide (0 ≤ s.2.2)

def jSite (s : Site) : Json := Json.arr #[jInt s.1, jInt s.2.1, jInt s.2.2]
def jOut (o : Bool × List (List Site)) : Json :=
  Json.arr #[Json.bool o.1, jList (jList jSite) o.2]

/-- request: {"variant": "current"|"pinned"|"spec", "ops": [[kind, path], …]} -/
def handle (j : Json) : Except String Json := do
  let ops ← listOf getOp (← field j "ops")
  let variant ← getStr (fieldD j "variant" (Json.str "current"))
  let outs ← match variant with
    | "current" => pure (run (step valid) Store.empty ops).2
    | "pinned" => pure (run (step0 valid) Store.empty ops).2
    | "spec" => pure (specRun valid [] ops).2
    | v => throw s!"unknown variant {v}"
  pure (jList jOut outs)

end LianVerif.Drv.PathStore
