/-
Drv/Core.lean — driver model "evalcore" (reference semantics of the typed core language,
Spec/Core.lean) and the JSON decoder of core programs.  Trusted glue: JSON decoding only.

Core program JSON:
  ty:   "int" | "bool" | "str" | "arr" | ["rec", R]
  expr: ["int", n] ["bool", b] ["str", s] ["var", x] ["bin", op, l, r] ["un", op, e]
        ["and", l, r] ["or", l, r] ["call", f, [args]] ["idx", a, i] ["fld", r, f]
        (bin op: add sub mul div mod lt le gt ge eq ne concat;  un op: neg not)
  stmt: ["decl", x, ty, e] ["assign", x, e] ["newarr", x, [e…]] ["newrec", x, R, [[f, e]…]]
        ["setidx", a, i, e] ["setfld", r, f, e] ["if", c, [thn], [els]] ["while", c, [body]]
        ["for", i, lo, hi, [body]] ["break"] ["continue"] ["ret", e] ["out", e] ["expr", e]
  fn:   {"name": f, "params": [[x, ty]…], "ret": ty, "body": [stmt…]}
  prog: {"recs": [[R, [f…]]…], "fns": [fn…]}
-/
import LianVerif.Drv.Util
import LianVerif.Drv.GirExec
import LianVerif.Spec.Core

namespace LianVerif.Drv.Core
open Lean LianVerif.Drv LianVerif.Gir LianVerif.Core

def arrAt (a : Array Json) (i : Nat) : Except String Json :=
  match a[i]? with
  | some j => pure j
  | none => throw s!"node too short at {i}"

def getTy (j : Json) : Except String Ty :=
  match j with
  | .str "int" => pure .int
  | .str "bool" => pure .bool
  | .str "str" => pure .str
  | .str "arr" => pure .arr
  | .arr a => do
    if (← getStr (← arrAt a 0)) == "rec" then pure (.record (← getStr (← arrAt a 1)))
    else throw s!"unknown type {j.compress}"
  | _ => throw s!"unknown type {j.compress}"

def getBinOp (s : String) : Except String BinOp :=
  match s with
  | "add" => pure .add | "sub" => pure .sub | "mul" => pure .mul | "div" => pure .div | "mod" => pure .mod
  | "lt" => pure .lt | "le" => pure .le | "gt" => pure .gt | "ge" => pure .ge
  | "eq" => pure .eq | "ne" => pure .ne | "concat" => pure .concat
  | o => throw s!"unknown binary operator {o}"

def getUnOp (s : String) : Except String UnOp :=
  match s with
  | "neg" => pure .neg | "not" => pure .not
  | o => throw s!"unknown unary operator {o}"

partial def getExpr (j : Json) : Except String Expr := do
  let a ← getArr j
  let tag ← getStr (← arrAt a 0)
  match tag with
  | "int" => pure (.int (← getInt (← arrAt a 1)))
  | "bool" => pure (.bool (← getBool (← arrAt a 1)))
  | "str" => pure (.str (← getStr (← arrAt a 1)))
  | "var" => pure (.var (← getStr (← arrAt a 1)))
  | "bin" => pure (.bin (← getBinOp (← getStr (← arrAt a 1))) (← getExpr (← arrAt a 2)) (← getExpr (← arrAt a 3)))
  | "un" => pure (.un (← getUnOp (← getStr (← arrAt a 1))) (← getExpr (← arrAt a 2)))
  | "and" => pure (.and (← getExpr (← arrAt a 1)) (← getExpr (← arrAt a 2)))
  | "or" => pure (.or (← getExpr (← arrAt a 1)) (← getExpr (← arrAt a 2)))
  | "call" => pure (.call (← getStr (← arrAt a 1)) (← (← getArr (← arrAt a 2)).toList.mapM getExpr))
  | "idx" => pure (.idx (← getStr (← arrAt a 1)) (← getExpr (← arrAt a 2)))
  | "fld" => pure (.fld (← getStr (← arrAt a 1)) (← getStr (← arrAt a 2)))
  | t => throw s!"unknown expression tag {t}"

mutual
partial def getStmt (j : Json) : Except String Core.Stmt := do
  let a ← getArr j
  let tag ← getStr (← arrAt a 0)
  match tag with
  | "decl" => pure (.decl (← getStr (← arrAt a 1)) (← getTy (← arrAt a 2)) (← getExpr (← arrAt a 3)))
  | "assign" => pure (.assign (← getStr (← arrAt a 1)) (← getExpr (← arrAt a 2)))
  | "newarr" => pure (.newArr (← getStr (← arrAt a 1)) (← (← getArr (← arrAt a 2)).toList.mapM getExpr))
  | "newrec" =>
    let fs ← (← getArr (← arrAt a 3)).toList.mapM (fun p => do
      let pa ← getArr p
      pure ((← getStr (← arrAt pa 0)), (← getExpr (← arrAt pa 1))))
    pure (.newRec (← getStr (← arrAt a 1)) (← getStr (← arrAt a 2)) fs)
  | "setidx" => pure (.setIdx (← getStr (← arrAt a 1)) (← getExpr (← arrAt a 2)) (← getExpr (← arrAt a 3)))
  | "setfld" => pure (.setFld (← getStr (← arrAt a 1)) (← getStr (← arrAt a 2)) (← getExpr (← arrAt a 3)))
  | "if" => pure (.ifS (← getExpr (← arrAt a 1)) (← getBody (← arrAt a 2)) (← getBody (← arrAt a 3)))
  | "while" => pure (.whileS (← getExpr (← arrAt a 1)) (← getBody (← arrAt a 2)))
  | "for" =>
    pure (.forS (← getStr (← arrAt a 1)) (← getExpr (← arrAt a 2)) (← getExpr (← arrAt a 3)) (← getBody (← arrAt a 4)))
  | "break" => pure .brk
  | "continue" => pure .cont
  | "ret" => pure (.ret (← getExpr (← arrAt a 1)))
  | "out" => pure (.out (← getExpr (← arrAt a 1)))
  | "expr" => pure (.exprS (← getExpr (← arrAt a 1)))
  | t => throw s!"unknown statement tag {t}"
partial def getBody (j : Json) : Except String (List Core.Stmt) := do
  (← getArr j).toList.mapM getStmt
end

def getFn (j : Json) : Except String FnDef := do
  let ps ← (← getArr (← field j "params")).toList.mapM (fun p => do
    let pa ← getArr p
    pure ((← getStr (← arrAt pa 0)), (← getTy (← arrAt pa 1))))
  pure { name := ← getStr (← field j "name"), params := ps, ret := ← getTy (← field j "ret"),
         body := ← getBody (← field j "body") }

def getProg (j : Json) : Except String Program := do
  let recs ← (← getArr (fieldD j "recs" (Json.arr #[]))).toList.mapM (fun r => do
    let ra ← getArr r
    pure ((← getStr (← arrAt ra 0)), (← listOf getStr (← arrAt ra 1))))
  pure { recs := recs, fns := ← listOf getFn (← field j "fns") }

/-- "evalcore": {"prog": …, "entry": f, "argvs": [[v…]…], "fuel": n?} → [{out, result}…] -/
def handleEval (j : Json) : Except String Json := do
  let p ← getProg (← field j "prog")
  let entry ← getStr (← field j "entry")
  let fuel ← getNat (fieldD j "fuel" (jNat 6000))
  let argvs ← listOf (listOf GirExec.getVal) (← field j "argvs")
  pure (jList (fun args => GirExec.jObs (runCore fuel p entry args)) argvs)

end LianVerif.Drv.Core
