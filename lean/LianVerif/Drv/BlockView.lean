import LianVerif.Drv.Util
import LianVerif.Model.BlockView

/-! Driver for model "blockview" (C16, GIRBlockViewer).  Request:
`{"m":"blockview","stmts":[[kind, id], …],"views":[[lo,hi], …],"ids":[…]}` with kind ∈ "s" | "e" | "o";
reply `{"err": "dup"|"noStart"|"mismatch"|"unclosed"}` or
`{"n":…, "first":[[id,index],…], "ranges":[[id,p,q],…] (sorted), "read":[[[lo,hi]|null per id] per view]}`. -/
namespace LianVerif.Drv.BlockView
open Lean LianVerif.Drv LianVerif.BlockView

def getStmt (j : Json) : Except String Stmt := do
  let a ← getArr j
  if a.size != 2 then throw "stmt must be [kind, id]"
  let k ← getStr a[0]!
  let kind ← match k with
    | "s" => pure Kind.start
    | "e" => pure Kind.fin
    | "o" => pure Kind.other
    | _ => throw s!"unknown kind {k}"
  pure ⟨kind, ← getInt a[1]!⟩

def getView (j : Json) : Except String Range := do
  let a ← getArr j
  if a.size != 2 then throw "view must be [lo, hi]"
  pure (← getInt a[0]!, ← getInt a[1]!)

def jErr : BErr → Json
  | .dup => "dup" | .noStart => "noStart" | .mismatch => "mismatch" | .unclosed => "unclosed"

def insertSorted (x : Int × Nat × Nat) : List (Int × Nat × Nat) → List (Int × Nat × Nat)
  | [] => [x]
  | y :: ys => if x.1 ≤ y.1 then x :: y :: ys else y :: insertSorted x ys

def handle (j : Json) : Except String Json := do
  let stmts ← listOf getStmt (← field j "stmts")
  let views ← listOf getView (fieldD j "views" (Json.arr #[]))
  let ids ← listOf getInt (fieldD j "ids" (Json.arr #[]))
  match build stmts with
  | .error e => pure (Json.mkObj [("err", jErr e)])
  | .ok s =>
    -- the dict keeps one entry per id: the most recent one
    let keys := (s.ranges.map (fun e => e.1)).eraseDups
    let rs := keys.filterMap (fun id => (lookupRange s.ranges id).map (fun pq => (id, pq.1, pq.2)))
    let sorted := rs.foldl (fun acc x => insertSorted x acc) []
    let jr (r : Option Range) : Json := match r with
      | some (lo, hi) => Json.arr #[jInt lo, jInt hi]
      | none => Json.null
    pure (Json.mkObj [
      ("n", jNat s.n),
      ("first", jList (fun e => Json.arr #[jInt e.1, jNat e.2.1]) s.first),
      ("ranges", jList (fun e => Json.arr #[jInt e.1, jNat e.2.1, jNat e.2.2]) sorted),
      ("read", jList (fun v => jList (fun id => jr (readBlock s v id)) ids) views)])

end LianVerif.Drv.BlockView

/-! Driver for model "blockworld": histories over `GIRBlockViewer` objects.  Request
`{"m":"blockworld","atomic":bool,"ops":[…],"ids":[int|null…],"ks":[int…],"codes":[nat…],"universe":[[uid,id]…]}`,
ops `["new",[[kind,id,uid,tag,label]…]] | ["empty"] | ["copy",i] | ["read",i,id|null] | ["append",i,j] | ["probe"]`.
Reply: one entry per op; a probe answers with the full battery of queries on every slot. -/
namespace LianVerif.Drv.BlockWorld
open Lean LianVerif.Drv LianVerif.BlockView

def getOptInt (j : Json) : Except String (Option Int) :=
  match j with
  | .null => pure none
  | _ => do pure (some (← getInt j))

def getVStmt (j : Json) : Except String VStmt := do
  let a ← getArr j
  if a.size != 5 then throw "stmt must be [kind, id, uid, tag, label]"
  let k ← getStr a[0]!
  let kind ← match k with
    | "s" => pure Kind.start
    | "e" => pure Kind.fin
    | "o" => pure Kind.other
    | _ => throw s!"unknown kind {k}"
  pure { core := ⟨kind, ← getInt a[1]!⟩, uid := ← getNat a[2]!, tag := ← getNat a[3]!, label := ← getInt a[4]! }

inductive Cmd where
  | op (o : VOp)
  | probe

def getCmd (j : Json) : Except String Cmd := do
  let a ← getArr j
  let k ← getStr a[0]!
  match k with
  | "new" => pure (.op (.new (← listOf getVStmt a[1]!)))
  | "empty" => pure (.op .empty)
  | "copy" => pure (.op (.copy (← getNat a[1]!)))
  | "read" => pure (.op (.read (← getNat a[1]!) (← getOptInt a[2]!)))
  | "append" => pure (.op (.append (← getNat a[1]!) (← getNat a[2]!)))
  | "probe" => pure .probe
  | _ => throw s!"unknown op {k}"

def jUid (s : Option VStmt) : Json := match s with | some x => jNat x.uid | none => Json.null
def jUids (l : List VStmt) : Json := jList (fun s => jNat s.uid) l

structure Dom where
  ids : List (Option Int)
  ks : List Int
  codes : List Nat
  objs : List (Nat × Int)

def battery (d : Dom) (v : Viewer) : Json :=
  let idv (f : Int → Json) (dflt : Json) : Json :=
    jList (fun (o : Option Int) => match o with | some i => f i | none => dflt) d.ids
  Json.arr #[
    jNat v.len,
    jUids v.visible,
    Json.arr #[jInt v.range.1, jInt v.range.2],
    Json.arr #[jNat v.len, jInt (v.range.1 + 1), jInt v.range.2],
    jList jInt ((List.range v.len).map (fun (i : Nat) => v.range.1 + 1 + Int.ofNat i)),
    jList (fun k => match v.getItem k with | some s => jNat s.uid | none => Json.str "IndexError") d.ks,
    jUids (v.getSlice 1 3),
    jUids (v.getSlice (-2) 99),
    jList (fun (u : Nat × Int) => Json.bool (v.contains u.1 u.2)) d.objs,
    jList (fun k => Json.bool (inRange v.range k)) d.ks,
    idv (fun i => Json.bool (v.containsStmtId i)) (Json.bool false),
    jList jInt v.allStmtIds,
    jList (fun (o : Option Int) => match v.readBlock o with
      | some b => Json.arr #[jInt b.range.1, jInt b.range.2]
      | none => Json.null) d.ids,
    jList (fun (o : Option Int) => jList jInt (v.blockStmtIds o)) d.ids,
    idv (fun i => jUid (v.stmtById i)) Json.null,
    jList (fun k => jUid (v.stmtByPos k)) d.ks,
    jList (fun c => jUids (v.queryOperation c)) d.codes,
    idv (fun i => jUids (v.visible.filter (fun s => s.core.id == i))) (Json.arr #[]),
    jList (fun c => jUids (v.queryOperation c)) d.codes,
    jUids v.visible,
    Json.arr #[],
    jList (fun (o : Option Int) => jInt (v.boundary [o])) d.ids,
    jInt (v.boundary d.ids),
    jInt (v.boundary [])]

def jBErr : BErr → Json
  | .dup => "dup" | .noStart => "noStart" | .mismatch => "mismatch" | .unclosed => "unclosed"

def jVOut : VOut → Json
  | .ok => Json.arr #["ok"]
  | .none => Json.arr #["none"]
  | .err e => Json.arr #["err", jBErr e]
  | .badSlot => Json.arr #["badslot"]

def runCmds (atomic : Bool) (d : Dom) : List Viewer → List Cmd → List Json
  | _, [] => []
  | slots, .probe :: rest =>
    Json.arr #["probe", jList (battery d) slots] :: runCmds atomic d slots rest
  | slots, .op o :: rest =>
    match stepV atomic slots o with
    | (slots', out) => jVOut out :: runCmds atomic d slots' rest

def getPair (j : Json) : Except String (Nat × Int) := do
  let a ← getArr j
  if a.size != 2 then throw "[uid, id] expected"
  pure (← getNat a[0]!, ← getInt a[1]!)

def handle (j : Json) : Except String Json := do
  let cmds ← listOf getCmd (← field j "ops")
  let atomic ← getBool (fieldD j "atomic" (Json.bool true))
  let d : Dom := { ids := ← listOf getOptInt (← field j "ids"), ks := ← listOf getInt (← field j "ks"),
                   codes := ← listOf getNat (← field j "codes"),
                   objs := ← listOf getPair (← field j "universe") }
  pure (Json.arr (runCmds atomic d [] cmds).toArray)

end LianVerif.Drv.BlockWorld
