import LianVerif.Drv.Util
import LianVerif.Model.BlockView

/-! Driver for model "blockview" (C16, GIRBlockViewer).  Request:
`{"m":"blockview","stmts":[[kind, id], …],"views":[[lo,hi], …],"ids":[…]}` with kind ∈ "s" | "e" | "o";
reply `{"err": "dup"|"noStart"|"mismatch"|"unclosed"}` or
`{"n":…, "first":[[id,index],…], "ranges":[[id,p,q],…] (sorted), "read":[[[lo,hi]|null per id] per view]}`. -/
namespace LianVerif.Drv.BlockView
open Lean LianVerif.Drv LianVerif.BlockView

def getStmt (j : Json) : Except String Stmt := do
  let a ← getArr j
  if a.size != 2 then throw "stmt must be [kind, id]"
  let k ← getStr a[0]!
  let kind ← match k with
    | "s" => pure Kind.start
    | "e" => pure Kind.fin
    | "o" => pure Kind.other
    | _ => throw s!"unknown kind {k}"
  pure ⟨kind, ← getInt a[1]!⟩

def getView (j : Json) : Except String Range := do
  let a ← getArr j
  if a.size != 2 then throw "view must be [lo, hi]"
  pure (← getInt a[0]!, ← getInt a[1]!)

def jErr : BErr → Json
  | .dup => "dup" | .noStart => "noStart" | .mismatch => "mismatch" | .unclosed => "unclosed"

def insertSorted (x : Int × Nat × Nat) : List (Int × Nat × Nat) → List (Int × Nat × Nat)
  | [] => [x]
  | y :: ys => if x.1 ≤ y.1 then x :: y :: ys else y :: insertSorted x ys

def handle (j : Json) : Except String Json := do
  let stmts ← listOf getStmt (← field j "stmts")
  let views ← listOf getView (fieldD j "views" (Json.arr #[]))
  let ids ← listOf getInt (fieldD j "ids" (Json.arr #[]))
  match build stmts with
  | .error e => pure (Json.mkObj [("err", jErr e)])
  | .ok s =>
    -- the dict keeps one entry per id: the most recent one
    let keys := (s.ranges.map (fun e => e.1)).eraseDups
    let rs := keys.filterMap (fun id => (lookupRange s.ranges id).map (fun pq => (id, pq.1, pq.2)))
    let sorted := rs.foldl (fun acc x => insertSorted x acc) []
    let jr (r : Option Range) : Json := match r with
      | some (lo, hi) => Json.arr #[jInt lo, jInt hi]
      | none => Json.null
    pure (Json.mkObj [
      ("n", jNat s.n),
      ("first", jList (fun e => Json.arr #[jInt e.1, jNat e.2.1]) s.first),
      ("ranges", jList (fun e => Json.arr #[jInt e.1, jNat e.2.1, jNat e.2.2]) sorted),
      ("read", jList (fun v => jList (fun id => jr (readBlock s v id)) ids) views)])

end LianVerif.Drv.BlockView
