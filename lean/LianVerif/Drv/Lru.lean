import LianVerif.Drv.Util
import LianVerif.Model.Lru

namespace LianVerif.Drv.Lru
open Lean LianVerif.Drv LianVerif.Lru

def getOp (j : Json) : Except String (Op Int Int) := do
  let a ← getArr j
  if a.size < 2 then throw "op must be [kind, key, …]"
  let k ← getStr a[0]!
  let key ← getInt a[1]!
  match k with
  | "get" => pure (.get key)
  | "contain" => pure (.contain key)
  | "remove" => pure (.remove key)
  | "put" =>
    if a.size != 3 then throw "put needs a value"
    pure (.put key (← getInt a[2]!))
  | _ => throw s!"unknown op {k}"

def jOut : Out Int → Json
  | .unit => Json.null
  | .bool b => Json.bool b
  | .val none => Json.arr #[]
  | .val (some v) => Json.arr #[jInt v]

def jItems (l : List (Int × Int)) : Json := jList (fun p => Json.arr #[jInt p.1, jInt p.2]) l

/-- request: {"cap": n, "ops": [[kind, key(, value)], …]}; reply: per op [output, [[key, value], …] LRU-first]. -/
def handle (j : Json) : Except String Json := do
  let cap ← getNat (← field j "cap")
  let ops ← listOf getOp (← field j "ops")
  let outs := (run (Lru.empty cap : Lru Int Int) ops).2
  pure (jList (fun o => Json.arr #[jOut o.1, jItems o.2]) outs)

end LianVerif.Drv.Lru
