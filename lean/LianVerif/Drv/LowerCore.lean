/-
Drv/LowerCore.lean — driver models "lowercore" (model of the per-language lowering,
Model/LowerCore.lean; reply = structured GIR in the JSON form of Drv/GirExec, with the
language-specific decoration of the real rows: `$` sigil of PHP variables, `type_parameters`,
`attrs`, `package_stmt`, `expression_stmt` targets) and "coreexec" (GIR reference semantics on the
MODEL's output).  Trusted glue: JSON encoding only.
-/
import LianVerif.Drv.Util
import LianVerif.Drv.GirExec
import LianVerif.Drv.Core
import LianVerif.Model.LowerCore

namespace LianVerif.Drv.LowerCore
open Lean LianVerif.Drv LianVerif.Gir LianVerif.LowerCore

def isTmp (s : String) : Bool := LowerPy.isTmpName s

def varTok (l : Lang) (x : String) : String :=
  if l == .php && !isTmp x then "$" ++ x else x

def opdTok (l : Lang) (o : Opd) : Json :=
  match o with
  | .var x => Json.str (varTok l x)
  | o => Json.str o.toToken

def bodyField (k : String) (b : List Json) : List (String × Json) :=
  if b.isEmpty then [] else [(k, Json.arr b.toArray)]

def targetOf : Stmt → Option String
  | .assign t _ _ _ => some t
  | .call t _ _ _ => some t
  | _ => none

mutual
partial def stmtToJson (l : Lang) (inUnitInit : Bool) (prev : Option Stmt) (s : Stmt) : Json :=
  let str := Json.str
  match s with
  | .assign t op a b =>
    Json.mkObj ([("op", str "assign_stmt"), ("target", str (varTok l t)), ("operand", opdTok l a)] ++
      (if op == "" then [] else [("operator", str op)]) ++
      (match b with | some b => [("operand2", opdTok l b)] | none => []))
  | .call t f as _ =>
    Json.mkObj ([("op", str "call_stmt"), ("target", str (varTok l t)), ("name", str f.toToken)] ++
      (if as.isEmpty then [] else [("positional_args", Json.arr (as.map (opdTok l)).toArray)]) ++
      (if l == .java then [("type_parameters", str "")] else []))
  | .ret v => Json.mkObj [("op", str "return_stmt"), ("name", opdTok l v)]
  | .ifS c t e =>
    Json.mkObj ([("op", str "if_stmt"), ("condition", opdTok l c)] ++ bodyField "then_body" (bodyToJson l false t) ++
      bodyField "else_body" (bodyToJson l false e))
  | .loop c pre b _ _ =>
    Json.mkObj ([("op", str "while_stmt"), ("condition", opdTok l c)] ++ bodyField "condition_prebody" (bodyToJson l false pre) ++
      bodyField "body" (bodyToJson l false b))
  | .block ss =>
    match ss.getLast? with
    | some (.loop c pre b u _) =>
      Json.mkObj ([("op", str "for_stmt"), ("condition", opdTok l c)] ++
        bodyField "init_body" (bodyToJson l false ss.dropLast) ++
        bodyField "condition_prebody" (bodyToJson l false pre) ++ bodyField "body" (bodyToJson l false b) ++
        bodyField "update_body" (bodyToJson l false u))
    | _ => Json.mkObj ([("op", str "block")] ++ bodyField "body" (bodyToJson l false ss))
  | .brk => Json.mkObj ([("op", str "break_stmt")] ++ (if l == .c then [] else [("name", str "")]))
  | .cont => Json.mkObj ([("op", str "continue_stmt")] ++ (if l == .c then [] else [("name", str "")]))
  | .pass =>
    if inUnitInit then Json.mkObj [("op", str "package_stmt"), ("name", str "main")]
    else if l == .typescript then
      Json.mkObj ([("op", str "expression_stmt")] ++
        (match prev.bind targetOf with | some t => [("target", str t)] | none => []))
    else Json.mkObj [("op", str "pass_stmt")]
  | .varDecl x =>
    Json.mkObj ([("op", str "variable_decl"), ("name", str (varTok l x))] ++
      (if l == .typescript then [("attrs", Json.arr #[str "let"])] else []))
  | .methodDecl n ps b =>
    Json.mkObj ([("op", str "method_decl"), ("name", str n)] ++
      (if l == .java then [("attrs", Json.arr #[str "static"])] else []) ++
      (if (l == .java || l == .go || l == .typescript) && n != "%unit_init" then [("type_parameters", str "")] else []) ++
      bodyField "parameters" (ps.map (fun p => Json.mkObj ([("op", str "parameter_decl"), ("name", str (varTok l p.name))] ++
        (if l == .php then [("default_value", str "")] else [])))) ++
      [("body", Json.arr (bodyToJson l (n == "%unit_init") b).toArray)])
  | .classDecl n _ ms =>
    Json.mkObj ([("op", str "class_decl"), ("attrs", Json.arr #[str "class"]), ("name", str n)] ++
      bodyField "methods" (bodyToJson l false ms))
  | .unsupported op => Json.mkObj [("op", str op)]
  | _ => Json.mkObj [("op", str "?unsupported-by-encoder")]

partial def bodyToJson (l : Lang) (inUnitInit : Bool) (ss : List Stmt) : List Json :=
  let rec go (prev : Option Stmt) : List Stmt → List Json
    | [] => []
    | s :: rest => stmtToJson l inUnitInit prev s :: go (some s) rest
  go none ss
end

def getLang (j : Json) : Except String Lang := do
  let l ← getStr (← field j "lang")
  match Lang.ofString? l with
  | some x => pure x
  | none => throw s!"unknown language {l}"

def getPinned (j : Json) : Except String Bool := do
  let v ← getStr (fieldD j "variant" (Json.str "current"))
  match v with
  | "current" => pure false
  | "pinned" => pure true
  | other => throw s!"unknown variant {other}"

/-- "lowercore": {"prog": …, "lang": l, "variant": "current"|"pinned"} → [stmt…] | null (outside the fragment) -/
def handleLower (j : Json) : Except String Json := do
  let p ← Core.getProg (← field j "prog")
  let l ← getLang j
  match lowerProgram l (← getPinned j) p with
  | some out => pure (Json.arr (bodyToJson l false out).toArray)
  | none => pure Json.null

/-- "coreexec": GIR reference semantics on the MODEL's output → [{out, result}…] | null -/
def handleModelExec (j : Json) : Except String Json := do
  let p ← Core.getProg (← field j "prog")
  let l ← getLang j
  let entry ← getStr (← field j "entry")
  let fuel ← getNat (fieldD j "fuel" (jNat 20000))
  let argvs ← listOf (listOf GirExec.getVal) (← field j "argvs")
  match lowerProgram l (← getPinned j) p with
  | some out =>
    pure (jList (fun args => GirExec.jObs (runEntry (fuel + 2) (execView l out) entry args (some fuel))) argvs)
  | none => pure Json.null

end LianVerif.Drv.LowerCore
