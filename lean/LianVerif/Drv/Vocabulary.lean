/-
Drv/Vocabulary.lean — driver model "vocab": evaluate `Vocabulary.vocabCheck` on REAL rows.
request: {"m":"vocab", "vocab": {"handled":[op…], "defuse":[op…], "cfg":[op…], "reads":{op:[a…]}, "doc":{op:[a…]}, "book":[a…]},
          "rows": [[op, [attr…]]…]}
reply:   {"ok": bool, "defects": [[row index, kind, attr]…]}   (kind: "op" | "table" | "attr" | "missing")
-/
import LianVerif.Drv.Util
import LianVerif.Model.Vocabulary

namespace LianVerif.Drv.Vocabulary
open Lean LianVerif.Drv LianVerif.Vocabulary

def getTable (j : Json) : Except String (List (String × List String)) :=
  match j with
  | .obj kvs => kvs.toList.mapM (fun (k, v) => do pure (k, ← listOf getStr v))
  | _ => throw "expected object"

def getVocab (j : Json) : Except String Vocab := do
  pure { handled := ← listOf getStr (← field j "handled"),
         defuse := ← listOf getStr (fieldD j "defuse" (Json.arr #[])), cfg := ← listOf getStr (fieldD j "cfg" (Json.arr #[])),
         reads := ← getTable (← field j "reads"),
         doc := ← getTable (← field j "doc"), book := ← listOf getStr (← field j "book") }

def getRow (j : Json) : Except String Row := do
  let a ← getArr j
  if a.size != 2 then throw "row must be [op, [attrs]]"
  pure { op := ← getStr a[0]!, attrs := ← listOf getStr a[1]! }

def handle (j : Json) : Except String Json := do
  let V ← getVocab (← field j "vocab")
  let rows ← listOf getRow (← field j "rows")
  let defects := (rows.zipIdx.map (fun (r, i) => (rowDefects V r).map (fun d => (i, d)))).flatten
  pure (Json.mkObj [("ok", Json.bool (vocabCheck V rows)),
    ("defects", jList (fun (d : Nat × String × String) => Json.arr #[jNat d.1, Json.str d.2.1, Json.str d.2.2]) defects),
    ("required", jList (fun (p : String × List String) => Json.arr #[Json.str p.1, jList Json.str p.2]) required)])

end LianVerif.Drv.Vocabulary
