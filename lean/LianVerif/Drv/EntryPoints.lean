import LianVerif.Drv.Util
import LianVerif.Model.EntryPoints

namespace LianVerif.Drv.EntryPoints
open Lean LianVerif.Drv LianVerif.EntryPoints

def getText (j : Json) : Except String Text := do
  pure (← getStr j).toList

def getStrOrList (j : Json) : Except String StrOrList :=
  match j with
  | .str s => pure (.str s.toList)
  | .arr _ => do pure (.list (← listOf getText j))
  | _ => throw s!"expected string or array of strings, got {j.compress}"

def optField {β} (j : Json) (k : String) (f : Json → Except String β) (d : β) : Except String β :=
  match j.getObjVal? k with
  | .ok v => f v
  | .error _ => pure d

/-- a rule object carries exactly the keys the YAML line had; absent keys take the dataclass default -/
def getRule (j : Json) : Except String Rule := do
  let d : Rule := {}
  pure {
    lang := ← optField j "lang" getText d.lang
    unitId := ← optField j "unit_id" getInt d.unitId
    unitPath := ← optField j "unit_path" getText d.unitPath
    unitName := ← optField j "unit_name" getText d.unitName
    methodId := ← optField j "method_id" getInt d.methodId
    methodList := ← optField j "method_list" getStrOrList d.methodList
    attrs := ← optField j "attrs" getStrOrList d.attrs
    args := ← optField j "args" getText d.args
    returnType := ← optField j "return_type" getText d.returnType }

def getMethod (j : Json) : Except String MethodScope := do
  let a ← getArr j
  if a.size != 3 then throw "method scope must be [stmt_id, name, attrs]"
  pure { stmtId := ← getInt a[0]!, name := ← getText a[1]!, attrs := ← getText a[2]! }

def getUnit (j : Json) : Except String P1Unit := do
  let u : UnitInfo := { lang := ← getText (← field j "lang"), moduleId := ← getInt (← field j "id"),
                        path := ← getText (← field j "path") }
  pure { info := u, girEmpty := ← optField j "gir_empty" getBool false,
         methods := ← listOf getMethod (← field j "methods") }

def getFile (j : Json) : Except String (Text × List Rule) := do
  let a ← getArr j
  if a.size != 2 then throw "file must be [name, rules]"
  pure (← getText a[0]!, ← listOf getRule a[1]!)

def jInts (l : List Int) : Json := jList jInt l

def candIdx (rules : List Rule) (u : UnitInfo) : List Nat :=
  ((List.range rules.length).zip rules).filterMap (fun p => if unitMatches p.2 u then some p.1 else none)

/-- request {"op":"select","requirement":"entry.yaml","files":[[name,[rule…]]…],"units":[{lang,id,path,methods}…]} -/
def handleSelect (j : Json) : Except String Json := do
  let req ← getText (← field j "requirement")
  let files ← listOf getFile (← field j "files")
  let units ← listOf getUnit (← field j "units")
  let rules := loadRules req files
  let loaded := ((List.range files.length).zip files).filterMap
    (fun p => if fileSelected req p.2.1 then some p.1 else none)
  let ana := p1Analysed units
  let tr := trace rules {} ana
  let anaIdx := ((List.range units.length).zip units).filterMap
    (fun p => if p1Skipped p.2 then none else some p.1)
  pure (Json.mkObj [
    ("loaded", jList jNat loaded),
    ("nrules", jNat rules.length),
    ("analysed", jList jNat anaIdx),
    ("cands", jList (fun (um : UnitInfo × List MethodScope) => jList jNat (candIdx rules um.1)) ana),
    ("trace", jList (fun (st : State) => Json.arr #[jInts st.results, jInts st.saved]) tr),
    ("runp1", jInts (runP1 rules units)),
    ("roots", jInts (p3Roots (fun e => e) (runP1 rules units)))])

/-- request {"op":"prims","infix":[[p,s]…],"basename":[p…],"file":[[req,name]…]} -/
def handlePrims (j : Json) : Except String Json := do
  let pair (x : Json) : Except String (Text × Text) := do
    let a ← getArr x
    if a.size != 2 then throw "pair expected"
    pure (← getText a[0]!, ← getText a[1]!)
  let inf ← listOf pair (fieldD j "infix" (Json.arr #[]))
  let bn ← listOf getText (fieldD j "basename" (Json.arr #[]))
  let fl ← listOf pair (fieldD j "file" (Json.arr #[]))
  pure (Json.mkObj [
    ("infix", jList (fun (p : Text × Text) => Json.bool (isInfix p.1 p.2)) inf),
    ("basename", jList (fun (p : Text) => Json.str (String.ofList (basename p))) bn),
    ("file", jList (fun (p : Text × Text) => Json.bool (fileSelected p.1 p.2)) fl)])

def handle (j : Json) : Except String Json := do
  let op ← getStr (fieldD j "op" (Json.str "select"))
  match op with
  | "select" => handleSelect j
  | "prims" => handlePrims j
  | o => throw s!"unknown op {o}"

end LianVerif.Drv.EntryPoints
