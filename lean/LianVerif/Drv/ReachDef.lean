import LianVerif.Drv.Util
import LianVerif.Model.WorkList
import LianVerif.Model.ReachDef
import LianVerif.Spec.ClassicalRD

/-! Driver handlers for the models "worklist" and "reachdef" (trusted glue, no theorem content). -/
namespace LianVerif.Drv.ReachDef
open Lean LianVerif.Drv LianVerif.WorkList LianVerif.ReachDef

/-! ### "worklist": a history of SimpleWorkList operations -/

def jEntry (e : Entry) : Json := Json.arr #[jNat e.1, jInt e.2]

def getPrio (j : Json) : Except String (List (Int × Nat)) :=
  listOf (fun p => do
    let a ← getArr p
    if a.size != 2 then throw "prio entry must be [item, priority]"
    pure (← getInt a[0]!, ← getNat a[1]!)) j

/-- request: {"m":"worklist","prio":[[item,priority],…],"ops":[["add",[items]],["pop"],["peek"],["heappop"]]}
reply: per op [result, work_list as [[priority,item],…], sorted all_data] -/
def handleWL (j : Json) : Except String Json := do
  let prio ← getPrio (← field j "prio")
  let ops ← getArr (← field j "ops")
  let mut w := WL.empty
  let mut outs : Array Json := #[]
  for op in ops do
    let a ← getArr op
    let k ← getStr a[0]!
    let mut res : Json := Json.null
    match k with
    | "add" =>
      let items ← listOf getInt a[1]!
      w := w.add prio items
    | "pop" =>
      res := match w.peek with | some x => jInt x | none => Json.null
      w := w.pop0
    | "heappop" =>
      res := match w.peek with | some x => jInt x | none => Json.null
      w := w.popMin
    | "peek" =>
      res := match w.peek with | some x => jInt x | none => Json.null
    | _ => throw s!"unknown worklist op {k}"
    let allSorted := (w.all.toArray.qsort (· < ·)).toList
    outs := outs.push (Json.arr #[res, jList jEntry w.heap, jList jInt allSorted])
  pure (Json.arr outs)

/-! ### "reachdef" -/

def getEdge (j : Json) : Except String (Int × Int × Nat) := do
  let a ← getArr j
  if a.size != 3 then throw "edge must be [src, dst, kind]"
  pure (← getInt a[0]!, ← getInt a[1]!, ← getNat a[2]!)

def getDefs (j : Json) : Except String (Int × List Int) := do
  let a ← getArr j
  if a.size != 2 then throw "defs entry must be [stmt, [symbol ids]]"
  pure (← getInt a[0]!, ← listOf getInt a[1]!)

def getInput (j : Json) : Except String Input := do
  pure { edges := ← listOf getEdge (← field j "edges"),
         stmts := ← listOf getInt (← field j "stmts"),
         loops := ← listOf getInt (← field j "loops"),
         defs := ← listOf getDefs (← field j "defs"),
         maxRound := ← getNat (← field j "max_round"),
         weightWorks := ← getBool (← field j "weight_works"),
         loopBack := ← getNat (← field j "loop_back") }

def defLt (a b : Def) : Bool := a.1 < b.1 || (a.1 == b.1 && a.2 < b.2)
def jDef (d : Def) : Json := Json.arr #[jInt d.1, jInt d.2]
def jDefs (l : List Def) : Json := jList jDef (l.toArray.qsort defLt).toList

def jTable (stmts : List Int) (f : Int → List Def) : Json :=
  jList (fun s => Json.arr #[jInt s, jDefs (f s)]) stmts

/-- request: {"m":"reachdef","variant":"pinned"|"r1"|"ideal"|"chkfix", …Input fields…}
* pinned / r1: {"visits","in","out","skips","finished","prio"}
* ideal:       {"in","out","converged","sweeps","topo","order"}
* chkfix:      needs "in"/"out" tables ([[stmt,[[sym,stmt],…]],…]); replies the verdict of the certified
               post-fixpoint check `chkFix` on them (run on *real* in/out sets) -/
def handleRD (j : Json) : Except String Json := do
  let I ← getInput j
  let variant ← getStr (fieldD j "variant" (Json.str "pinned"))
  match variant with
  | "pinned" | "r1" =>
    let r := rdWith (if variant == "pinned" then .pinned else .r1) I
    let G := mkGraph I.rawEdges
    pure (Json.mkObj [("visits", jList jInt r.visits), ("in", jTable I.stmts r.ins),
      ("out", jTable I.stmts r.outs), ("skips", jNat r.skips), ("skip_stmts", jList jInt r.skipStmts), ("in_trace", jList jDefs r.inTrace), ("finished", Json.bool r.finished),
      ("prio", jList (fun p => Json.arr #[jInt p.1, jNat p.2]) G.prio)])
  | "ideal" =>
    let r := ideal I
    pure (Json.mkObj [("in", jTable I.stmts r.sol.ins), ("out", jTable I.stmts r.sol.outs),
      ("converged", Json.bool r.converged), ("sweeps", jNat r.sweeps), ("topo", Json.bool r.topo),
      ("order", jList jInt r.order)])
  | "chkfix" =>
    let getTab (k : String) : Except String (Int → List Def) := do
      let rows ← listOf (fun r => do
        let a ← getArr r
        let ds ← listOf (fun d => do
          let b ← getArr d
          pure ((← getInt b[0]!, ← getInt b[1]!) : Def)) a[1]!
        pure (← getInt a[0]!, ds)) (← field j k)
      pure (fun s => match rows.lookup s with | some l => l | none => [])
    let sol : Sol := { ins := ← getTab "in", outs := ← getTab "out" }
    let G := mkGraph I.rawEdges
    -- the exit node -1 has no status row: give it the union of its predecessors' out sets
    let sol := patchExit G.E sol
    pure (Json.mkObj [("fixpoint", Json.bool (chkFix G.E I.defs G.nodes sol))])
  | v => throw s!"unknown variant {v}"

def handle (j : Json) : Except String Json := do
  let m ← getStr (← field j "m")
  match m with
  | "worklist" => handleWL j
  | "reachdef" => handleRD j
  | _ => throw s!"unknown model {m}"

end LianVerif.Drv.ReachDef
