import LianVerif.Drv.Util
import LianVerif.Spec.Fs
import LianVerif.Model.Workspace
import LianVerif.Model.WorkspaceSites

namespace LianVerif.Drv.Workspace
open Lean LianVerif.Drv LianVerif.Fs LianVerif.Workspace

/-- a Python path string → raw path (split on '/') -/
def parseR (s : String) : RPath :=
  if s.startsWith "/" then { abs := true, comps := (String.ofList (s.toList.drop 1)).splitOn "/" }
  else { abs := false, comps := s.splitOn "/" }

/-- a canonical absolute path string → physical path -/
def parseP (s : String) : Path := ((String.ofList (s.toList.drop 1)).splitOn "/").filter (fun c => c != "")

def showP (p : Path) : String := "/" ++ "/".intercalate p

def showR (p : RPath) : String := (if p.abs then "/" else "") ++ "/".intercalate p.comps

def getNode (a : Array Json) : Except String (Path × Node) := do
  if a.size < 2 then throw "fs entry must be [path, kind, …]"
  let p := parseP (← getStr a[0]!)
  match ← getStr a[1]! with
  | "d" => pure (p, .dir)
  | "f" => if a.size < 3 then throw "file entry needs content id" else pure (p, .file (← getNat a[2]!))
  | "l" => if a.size < 3 then throw "link entry needs target" else pure (p, .link (parseR (← getStr a[2]!)))
  | k => throw s!"unknown node kind {k}"

def getFs (j : Json) : Except String FS := do
  let a ← getArr j
  a.toList.mapM (fun e => do getNode (← getArr e))

def jNode (e : Path × Node) : Json :=
  match e.2 with
  | .dir => Json.arr #[Json.str (showP e.1), Json.str "d"]
  | .file c => Json.arr #[Json.str (showP e.1), Json.str "f", jNat c]
  | .link t => Json.arr #[Json.str (showP e.1), Json.str "l", Json.str (showR t)]

def showErr : Err → String
  | .noent => "noent" | .notdir => "notdir" | .loop => "loop"
  | .exist => "exist" | .isdir => "isdir" | .same => "same"

def jEff (e : Eff) : Json :=
  let k := match e with
    | .mkdir _ => "mkdir" | .create _ => "create" | .overwrite _ => "overwrite"
    | .unlink _ => "unlink" | .rmtree _ => "rmtree"
  Json.arr #[Json.str k, Json.str (showP e.path)]

def showStop : Option Stop → String
  | none => "ok"
  | some .quit => "quit"
  | some (.exc e) => "exc:" ++ showErr e
  | some .fuelOut => "fuel"

def getCfg (j : Json) : Except String Cfg := do
  let mock ← match fieldD j "mock" Json.null with
    | Json.null => pure none
    | m => do pure (some (parseR (← getStr m)))
  pure {
    cwd := parseP (← getStr (← field j "cwd"))
    wsOpt := parseR (← getStr (← field j "ws"))
    inputs := (← listOf getStr (← field j "inputs")).map parseR
    force := ← getBool (← field j "force")
    exts := ← listOf getStr (← field j "exts")
    subdirs := ← listOf getStr (← field j "subdirs")
    srcDir := ← getStr (← field j "src_dir")
    externsDir := ← getStr (← field j "externs_dir")
    defaultName := ← getStr (← field j "default")
    mock := mock }

def handlePrepare (j : Json) : Except String Json := do
  let cfg ← getCfg j
  let fs ← getFs (← field j "fs")
  let v ← match ← getStr (fieldD j "variant" (Json.str "live")) with
    | "live" => pure Variant.live
    | "pinned" => pure Variant.pinned
    | x => throw s!"unknown variant {x}"
  let fuel ← match fieldD j "fuel" Json.null with
    | Json.null => pure (defaultFuel cfg fs)
    | f => getNat f
  let (s, stop) := prepare v fuel cfg fs
  let ws := setWorkspaceDir cfg
  let wphys := wsPhys cfg fs
  let inFrag := match wphys with
    | some W => inFragment cfg fs W
    | none => false
  let inFragB := match wphys with
    | some W => inFragmentBound cfg fs W
    | none => false
  pure (Json.mkObj [
    ("in_fragment", Json.bool inFrag),
    ("in_fragment_bound", Json.bool inFragB),
    ("ws_phys", match wphys with | some W => Json.str (showP W) | none => Json.null),
    ("status", Json.str (showStop stop)),
    ("fs", jList jNode s.fs),
    ("log", jList jEff s.log),
    ("map", jList (fun e => Json.arr #[Json.str (showP e.1), Json.str (showP e.2)]) s.map),
    ("ws", Json.str (showR ws)),
    ("ws_real", Json.str (showP (realpath fs cfg.cwd ws))),
    ("ws_abs", Json.str (showP (abspath cfg.cwd ws))),
    ("max_depth", jNat (maxEffDepth s.log)),
    ("copies", jNat (copyCount s.log)),
    ("fuel", jNat fuel)])

/-- differential test of the Fs reference definitions against `os.path` / `os.listdir` -/
def handlePrims (j : Json) : Except String Json := do
  let cwd := parseP (← getStr (← field j "cwd"))
  let fs ← getFs (← field j "fs")
  let paths ← listOf getStr (← field j "paths")
  pure (jList (fun s =>
    let p := parseR s
    Json.arr #[
      Json.str (showP (realpath fs cwd p)),
      Json.bool (exists_ fs cwd p), Json.bool (isDir fs cwd p), Json.bool (isFile fs cwd p),
      Json.bool (isLink fs cwd p),
      (match listDir fs cwd p with
        | .ok (_, names) => jList Json.str names
        | .error _ => Json.null),
      Json.str (showP (abspath cwd p)),
      Json.str (basename p),
      Json.str (lowerAscii (splitExt (basename p))),
      Json.str (showR (relpath cwd p { abs := false, comps := ["."] }))]) paths)

/-- requests: {"op":"prepare", …} | {"op":"prims", …} | {"op":"write_sites"} -/
def handle (j : Json) : Except String Json := do
  match ← getStr (fieldD j "op" (Json.str "prepare")) with
  | "prepare" => handlePrepare j
  | "prims" => handlePrims j
  | "write_sites" =>
    pure (jList (fun (e : String × String × String) =>
      Json.arr #[Json.str e.1, Json.str e.2.1, Json.str e.2.2]) LianVerif.WorkspaceSites.writeSites)
  | op => throw s!"unknown op {op}"

end LianVerif.Drv.Workspace
