import LianVerif.Drv.Util
import LianVerif.Model.Hoist

/-
Driver handler for the hoisting model (C05).
request: {"m":"hoist","py":bool,"variant":"current"|"pinned","tree":[stmt…]}
stmt   : {"k":key,"n":name|null,"a":[attrs…],"s":[[sub_key,[stmt…]]…],"t":tag}
reply  : the rewritten tree, same encoding.
-/
namespace LianVerif.Drv.Hoist
open Lean LianVerif.Drv LianVerif.Hoist

partial def getStmt (j : Json) : Except String (Stmt String) := do
  let k ← getStr (← field j "k")
  let n ← match (← field j "n") with
    | .null => pure none
    | .str s => pure (some s)
    | v => throw s!"bad name {v.compress}"
  let a ← listOf getStr (← field j "a")
  let subs ← listOf (fun (e : Json) => do
      let arr ← getArr e
      if arr.size != 2 then throw "sub must be [key, stmts]"
      let sk ← getStr arr[0]!
      let l ← listOf getStmt arr[1]!
      pure (sk, l)) (← field j "s")
  let t ← getNat (← field j "t")
  pure (.mk k n a subs t)

partial def jStmt : Stmt String → Json
  | .mk k n a subs t =>
    Json.mkObj [("k", Json.str k), ("n", match n with | none => Json.null | some s => Json.str s),
      ("a", jList Json.str a),
      ("s", jList (fun (p : String × List (Stmt String)) => Json.arr #[Json.str p.1, jList jStmt p.2]) subs),
      ("t", jNat t)]

partial def size : List (Stmt String) → Nat
  | [] => 0
  | (.mk _ _ _ subs _) :: rest => 1 + (subs.foldl (fun acc p => acc + 1 + size p.2) 0) + size rest

def handle (j : Json) : Except String Json := do
  let py ← getBool (← field j "py")
  let variant ← getStr (fieldD j "variant" (Json.str "current"))
  let tree ← listOf getStmt (← field j "tree")
  let cfg ← match variant with
    | "current" => pure (Cfg.current py)
    | "pinned" => pure (Cfg.pinned py)
    | v => throw s!"unknown variant {v}"
  -- every recursive call consumes one unit of fuel; 4 per node + slack is ample
  let fuel := 4 * size tree + 16
  pure (jList jStmt (hoist cfg fuel tree))

end LianVerif.Drv.Hoist
