/-
Drv/LowerPy.lean — driver models "lowerpy" (model of lian's Python lowering + passes on a fragment
program; reply = structured GIR in the JSON form of Drv/GirExec) and "evalpy" (reference source
semantics of the fragment).  Trusted glue: JSON decoding/encoding only.

Fragment program JSON:
  expr: ["const", v] ["name", x] ["bin", op, l, r] ["un", op, e] ["boolop", op, l, r]
        ["cmp3", op1, op2, a, b, c] ["ifexp", t, c, e] ["call", f, [args]]
  stmt: ["assign", x, e] ["aug", x, op, e] ["expr", e] ["if", c, [thn], [els]] ["while", c, [body]]
        ["break"] ["continue"] ["pass"] ["return", e]
  prog: [{"name": f, "params": [x…], "body": [stmt…]}…]
-/
import LianVerif.Drv.Util
import LianVerif.Drv.GirExec
import LianVerif.Model.LowerPy
import LianVerif.Spec.PySrc

namespace LianVerif.Drv.LowerPy
open Lean LianVerif.Drv LianVerif.Gir LianVerif.PySrc LianVerif.LowerPy

def arrAt (a : Array Json) (i : Nat) : Except String Json :=
  match a[i]? with
  | some j => pure j
  | none => throw s!"node too short at {i}"

mutual
partial def getExpr (j : Json) : Except String Expr := do
  let a ← getArr j
  let tag ← getStr (← arrAt a 0)
  match tag with
  | "const" => pure (.const (← GirExec.getVal (← arrAt a 1)))
  | "name" => pure (.name (← getStr (← arrAt a 1)))
  | "bin" => pure (.bin (← getStr (← arrAt a 1)) (← getExpr (← arrAt a 2)) (← getExpr (← arrAt a 3)))
  | "un" => pure (.un (← getStr (← arrAt a 1)) (← getExpr (← arrAt a 2)))
  | "boolop" => pure (.boolop (← getStr (← arrAt a 1)) (← getExpr (← arrAt a 2)) (← getExpr (← arrAt a 3)))
  | "cmp3" =>
    pure (.cmp3 (← getStr (← arrAt a 1)) (← getStr (← arrAt a 2)) (← getExpr (← arrAt a 3))
            (← getExpr (← arrAt a 4)) (← getExpr (← arrAt a 5)))
  | "ifexp" => pure (.ifexp (← getExpr (← arrAt a 1)) (← getExpr (← arrAt a 2)) (← getExpr (← arrAt a 3)))
  | "call" => pure (.call (← getStr (← arrAt a 1)) (← (← getArr (← arrAt a 2)).toList.mapM getExpr))
  | t => throw s!"unknown expression tag {t}"
end

mutual
partial def getPStmt (j : Json) : Except String PStmt := do
  let a ← getArr j
  let tag ← getStr (← arrAt a 0)
  match tag with
  | "assign" => pure (.assign (← getStr (← arrAt a 1)) (← getExpr (← arrAt a 2)))
  | "aug" => pure (.aug (← getStr (← arrAt a 1)) (← getStr (← arrAt a 2)) (← getExpr (← arrAt a 3)))
  | "expr" => pure (.exprS (← getExpr (← arrAt a 1)))
  | "if" => pure (.ifS (← getExpr (← arrAt a 1)) (← getPBody (← arrAt a 2)) (← getPBody (← arrAt a 3)))
  | "while" => pure (.whileS (← getExpr (← arrAt a 1)) (← getPBody (← arrAt a 2)))
  | "break" => pure .brk
  | "continue" => pure .cont
  | "pass" => pure .pass
  | "return" => pure (.ret (← getExpr (← arrAt a 1)))
  | "global" => pure (.globalS (← getStr (← arrAt a 1)))
  | t => throw s!"unknown statement tag {t}"
partial def getPBody (j : Json) : Except String (List PStmt) := do
  (← getArr j).toList.mapM getPStmt
end

def getFn (j : Json) : Except String FnDef := do
  pure { name := ← getStr (← field j "name"), params := ← listOf getStr (← field j "params"),
         body := ← getPBody (← field j "body") }

/-- a module is {"fns": [...], "top": [...]} or just the list of functions. -/
def getProg (j : Json) : Except String PySrc.Module :=
  match j with
  | .arr _ => do pure { fns := ← listOf getFn j }
  | _ => do pure { fns := ← listOf getFn (← field j "fns"), top := ← getPBody (fieldD j "top" (Json.arr #[])) }

/-! ### structured GIR → JSON (same attribute names as the rows) -/

def jTok (o : Opd) : Json := Json.str o.toToken

def optField (k : String) (v : Option Json) : List (String × Json) :=
  match v with
  | some j => [(k, j)]
  | none => []

def bodyField (k : String) (b : List Json) : List (String × Json) :=
  if b.isEmpty then [] else [(k, Json.arr b.toArray)]

partial def stmtToJson (s : Stmt) : Json :=
  let body (ss : List Stmt) : List Json := ss.map stmtToJson
  match s with
  | .assign t op a b =>
    Json.mkObj ([("op", Json.str "assign_stmt"), ("target", Json.str t), ("operand", jTok a)] ++
      (if op == "" then [] else [("operator", Json.str op)]) ++ optField "operand2" (b.map jTok))
  | .call t f as ns =>
    Json.mkObj ([("op", Json.str "call_stmt"), ("target", Json.str t), ("name", jTok f)] ++
      (if as.isEmpty then [] else [("positional_args", Json.arr (as.map jTok).toArray)]) ++
      (if ns.isEmpty then [] else [("named_args", Json.arr (ns.map (fun p => Json.arr #[Json.str p.1, jTok p.2])).toArray)]))
  | .ret v => Json.mkObj [("op", Json.str "return_stmt"), ("name", jTok v)]
  | .ifS c t e =>
    Json.mkObj ([("op", Json.str "if_stmt"), ("condition", jTok c)] ++ bodyField "then_body" (body t) ++
      bodyField "else_body" (body e))
  | .loop c pre b _ e =>
    Json.mkObj ([("op", Json.str "while_stmt"), ("condition", jTok c)] ++ bodyField "condition_prebody" (body pre) ++
      bodyField "body" (body b) ++ bodyField "else_body" (body e))
  | .brk => Json.mkObj [("op", Json.str "break_stmt"), ("name", Json.str "")]
  | .cont => Json.mkObj [("op", Json.str "continue_stmt"), ("name", Json.str "")]
  | .pass => Json.mkObj [("op", Json.str "pass_stmt")]
  | .varDecl x => Json.mkObj [("op", Json.str "variable_decl"), ("name", Json.str x)]
  | .globalS x => Json.mkObj [("op", Json.str "global_stmt"), ("name", Json.str x)]
  | .methodDecl n ps b =>
    Json.mkObj ([("op", Json.str "method_decl"), ("name", Json.str n)] ++
      bodyField "parameters" (ps.map (fun p => Json.mkObj [("op", Json.str "parameter_decl"), ("name", Json.str p.name)])) ++
      [("body", Json.arr (body b).toArray)])
  | _ => Json.mkObj [("op", Json.str "?unsupported-by-encoder")]

def getCfg (j : Json) : Except String Cfg := do
  let v ← getStr (fieldD j "variant" (Json.str "current"))
  match v with
  | "current" => pure Cfg.current
  | "pinned" => pure Cfg.pinned
  | other => throw s!"unknown variant {other}"

/-- "lowerpy": {"prog": …, "variant": "current"|"pinned", "stage": "lower"|"elim"|"hoist"|"final"} → [stmt…] -/
def handleLower (j : Json) : Except String Json := do
  let p ← getProg (← field j "prog")
  let cfg ← getCfg j
  let stage ← getStr (fieldD j "stage" (Json.str "final"))
  let raw := lowerModule cfg p
  let out ← match stage with
    | "lower" => pure raw
    | "elim" => pure (tmpElim raw)
    | "hoist" => pure (hoist (tmpElim raw))
    | "final" => pure (pipelineM cfg p)
    | s => throw s!"unknown stage {s}"
  pure (jList stmtToJson out)

/-- "evalpy": {"prog": …, "entry": f, "argvs": [[v…]…], "fuel": n?} → [{out, result}…] -/
def handleEval (j : Json) : Except String Json := do
  let p ← getProg (← field j "prog")
  let entry ← getStr (← field j "entry")
  let fuel ← getNat (fieldD j "fuel" (jNat 5000))
  let argvs ← listOf (listOf GirExec.getVal) (← field j "argvs")
  pure (jList (fun args => GirExec.jObs (runModule fuel p entry args)) argvs)

/-- "modelexec": run the GIR reference semantics on the MODEL's output (pipeline cfg prog). -/
def handleModelExec (j : Json) : Except String Json := do
  let p ← getProg (← field j "prog")
  let cfg ← getCfg j
  let entry ← getStr (← field j "entry")
  let fuel ← getNat (fieldD j "fuel" (jNat 20000))
  let argvs ← listOf (listOf GirExec.getVal) (← field j "argvs")
  pure (jList (fun args => GirExec.jObs (runEntry (fuel + 2) (pipelineM cfg p) entry args (some fuel))) argvs)

end LianVerif.Drv.LowerPy
