import LianVerif.Drv.Util
import LianVerif.Model.Sched
import LianVerif.Spec.SchedWitness

namespace LianVerif.Drv.Sched
open Lean LianVerif.Drv LianVerif.Sched

def getPairList (j : Json) : Except String (Nat × List Nat) := do
  let a ← getArr j
  if a.size != 2 then throw "expected [stmt, [succ…]]"
  pure (← getNat a[0]!, ← listOf getNat a[1]!)

def getPair (j : Json) : Except String (Nat × Nat) := do
  let a ← getArr j
  if a.size != 2 then throw "expected [stmt, prio]"
  pure (← getNat a[0]!, ← getNat a[1]!)

def jVisits (v : List (Nat × Bool)) : Json :=
  jList (fun (x : Nat × Bool) => Json.arr #[jNat x.1, Json.bool x.2]) v

def jCfg (c : Cfg) : Json :=
  Json.mkObj [("succ", jList (fun (x : Nat × List Nat) => Json.arr #[jNat x.1, jList jNat x.2]) c.succ),
              ("prio", jList (fun (x : Nat × Nat) => Json.arr #[jNat x.1, jNat x.2]) c.prio),
              ("stmts", jList jNat c.stmts), ("first", jList jNat c.first), ("max", jNat c.maxRound)]

/-- request {"op":"run","succ":[[s,[…]],…],"prio":[[s,p],…],"stmts":[…],"first":[…],"max":3,"oracle":[bool…],"fuel":N}
    reply   [[stmt, blind], …]
    request {"op":"witness"} → the CFG, oracle and line table of the negative theorem -/
def handle (j : Json) : Except String Json := do
  let op ← getStr (fieldD j "op" (Json.str "run"))
  match op with
  | "run" =>
    let c : Cfg := { succ := ← listOf getPairList (← field j "succ"),
                     prio := ← listOf getPair (← field j "prio"),
                     stmts := ← listOf getNat (← field j "stmts"),
                     first := ← listOf getNat (← field j "first"),
                     maxRound := ← getNat (← field j "max") }
    let oracle ← listOf getBool (← field j "oracle")
    let fuel ← getNat (← field j "fuel")
    pure (jVisits (schedule c oracle fuel))
  | "witness" =>
    pure (Json.mkObj [("cfg", jCfg resumeCfg), ("oracle", jList Json.bool resumeOracle)])
  | _ => throw s!"unknown op {op}"

end LianVerif.Drv.Sched
