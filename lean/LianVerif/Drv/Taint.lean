/-
Driver handlers for the models "taint" (engine over a serialised SFG) and "taintrules" (matcher
decisions per node).  Stateless: one request = one graph + rule set, one reply = everything the
model computes for it.  Trusted glue; calls the definitions the theorems are about.
-/
import LianVerif.Drv.Util
import LianVerif.Model.Taint
import LianVerif.Spec.Reach
import LianVerif.Spec.TaintWitness

namespace LianVerif.Drv.Taint
open Lean LianVerif.Drv LianVerif.Sfg LianVerif.TaintRules LianVerif.Taint

def getOptStr (j : Json) : Except String (Option String) :=
  match j with
  | .null => pure none
  | .str s => pure (some s)
  | _ => throw s!"expected string or null, got {j.compress}"

def getOptInt (j : Json) : Except String (Option Int) :=
  match j with
  | .null => pure none
  | _ => do pure (some (← getInt j))

def getAP (j : Json) : Except String APKey := do
  let a ← getArr j
  if a.size != 2 then throw "access path key must be [isStr, text]"
  pure { isStr := (← getInt a[0]!) != 0, text := ← getStr a[1]! }

/-- node: [kind, defStmt, index, nodeId, ctx, name, lineNo, operation, ap, sField, sReceiver, sName,
sKey, startRow, unitIdx]; units: [[path, lang], …] -/
def getNode (units : Array (String × String)) (j : Json) : Except String Node := do
  let a ← getArr j
  if a.size != 15 then throw s!"node must have 15 fields, got {a.size}"
  let ui ← getNat a[14]!
  let (up, ul) ← match units[ui]? with
    | some u => pure u
    | none => throw s!"unit index {ui} out of range"
  pure { kind := ← getNat a[0]!, defStmt := ← getInt a[1]!, index := ← getInt a[2]!,
         nodeId := ← getInt a[3]!, ctx := ← getInt a[4]!, name := ← getStr a[5]!,
         lineNo := ← getInt a[6]!, operation := ← getStr a[7]!, ap := ← listOf getAP a[8]!,
         sField := ← getStr a[9]!, sReceiver := ← getStr a[10]!, sName := ← getStr a[11]!,
         sKey := ← getStr a[12]!, startRow := ← getInt a[13]!, unitPath := up, unitLang := ul }

def getEdge (j : Json) : Except String Edge := do
  let a ← getArr j
  if a.size != 3 then throw "edge must be [peer, etype, pos]"
  pure { peer := ← getNat a[0]!, etype := ← getNat a[1]!, pos := ← getInt a[2]! }

def getUnit (j : Json) : Except String (String × String) := do
  let a ← getArr j
  if a.size != 2 then throw "unit must be [path, lang]"
  pure (← getStr a[0]!, ← getStr a[1]!)

def getGraph (j : Json) : Except String Graph := do
  let units ← listOf getUnit (← field j "units")
  let nodes ← listOf (getNode units.toArray) (← field j "nodes")
  let out ← listOf (listOf getEdge) (← field j "out")
  let inn ← listOf (listOf getEdge) (← field j "in")
  pure { nodes := nodes, out := out, inn := inn }

def getTarget (j : Json) : Except String RTarget :=
  match j with
  | .null => pure .none
  | .str s => pure (.str s)
  | .arr a => do pure (.list (← a.toList.mapM getOptStr))
  | _ => throw s!"bad target {j.compress}"

/-- rule: [lang, name, operation, target, attr, unitPath, unitName, lineNum, key, vulnType] -/
def getRule (j : Json) : Except String Rule := do
  let a ← getArr j
  if a.size != 10 then throw s!"rule must have 10 fields, got {a.size}"
  pure { lang := ← getStr a[0]!, name := ← getOptStr a[1]!, operation := ← getOptStr a[2]!,
         target := ← getTarget a[3]!, attr := ← getOptStr a[4]!, unitPath := ← getOptStr a[5]!,
         unitName := ← getOptStr a[6]!, lineNum := ← getOptInt a[7]!, key := ← getOptStr a[8]!,
         vulnType := ← getOptStr a[9]! }

/-- code rule: [unitPath, lineNum, symbolName, lang] -/
def getCodeRule (j : Json) : Except String CodeRule := do
  let a ← getArr j
  if a.size != 4 then throw "code rule must have 4 fields"
  pure { unitPath := ← getStr a[0]!, lineNum := ← getInt a[1]!, symbolName := ← getStr a[2]!,
         lang := ← getStr a[3]! }

def getRules (j : Json) : Except String RuleSet := do
  pure { sources := ← listOf getRule (← field j "sources"),
         sinks := ← listOf getRule (← field j "sinks"),
         srcCode := ← listOf getCodeRule (← field j "src_code"),
         sinkCode := ← listOf getCodeRule (← field j "sink_code") }

def getVariant (j : Json) : Except String Variant :=
  match j with
  | .str "current" => pure current
  | .str "pinned" => pure pinned
  | .arr a => do
    if a.size != 7 then
      throw "variant must be [callSrcPos, checkLang, resetTargetPos, codeSinkUnit, sinkTagLoc, fieldReadLoc, codeSinkSymOnly]"
    pure { callSrcPos := ← getInt a[0]!, checkLang := (← getInt a[1]!) != 0,
           resetTargetPos := (← getInt a[2]!) != 0, codeSinkUnit := (← getInt a[3]!) != 0,
           sinkTagLoc := (← getInt a[4]!) != 0, fieldReadLoc := (← getInt a[5]!) != 0,
           codeSinkSymOnly := (← getInt a[6]!) != 0 }
  | _ => throw s!"bad variant {j.compress}"

/-- constants extracted from the live modules; the named values of the model are compared. -/
def checkConsts (j : Json) : Except String Unit := do
  let want : List (String × Json) := [
    ("K_STMT", jNat K_STMT), ("K_SYMBOL", jNat K_SYMBOL), ("K_STATE", jNat K_STATE),
    ("E_DEFINED", jNat E_DEFINED), ("E_USED", jNat E_USED), ("E_FLOW", jNat E_FLOW),
    ("E_IFLOW", jNat E_IFLOW), ("E_SYMSTATE", jNat E_SYMSTATE), ("E_INCL", jNat E_INCL),
    ("E_IINCL", jNat E_IINCL), ("ANY_LANG", Json.str ANY_LANG), ("KW_ARG0", Json.str KW_ARG0),
    ("KW_ARG1", Json.str KW_ARG1), ("KW_ARG2", Json.str KW_ARG2), ("KW_ARG3", Json.str KW_ARG3),
    ("KW_ARG4", Json.str KW_ARG4), ("KW_TARGET", Json.str KW_TARGET),
    ("KW_RECEIVER", Json.str KW_RECEIVER), ("KW_ANYNAME", Json.str KW_ANYNAME)]
  for (k, v) in want do
    let got ← field j k
    if got.compress != v.compress then
      throw s!"params: constant {k} is {got.compress} in the live code, the model names {v.compress}"

def getParams (j : Json) : Except String Params := do
  checkConsts (← field j "consts")
  -- `stateUpSymOnly` is NOT read from the real code: the current value is part of the model, so a
  -- revert of the repair shows as a difference; a request may pin the old behaviour explicitly
  let prm : Params := { propOps := ← listOf getStr (← field j "prop_ops"),
                        stateUpSymOnly := (fieldD j "state_up_sym_only" (Json.bool true)) != Json.bool false }
  if !paramsOk prm then
    throw "params: field_read or call_stmt missing from the propagating operations (the rule loop of apply_propagation_rules would be live)"
  pure prm

def jOptStr (o : Option String) : Json :=
  match o with
  | some s => Json.str s
  | none => Json.null

def jOptNat (o : Option Nat) : Json :=
  match o with
  | some n => jNat n
  | none => Json.null

def jBool (b : Bool) : Json := Json.bool b

def dedupNat (l : List Nat) : List Nat := l.foldl (fun acc x => if acc.contains x then acc else acc ++ [x]) []

/-- request {"m":"taint","variant":…,"params":…,"graph":…,"rules":…} -/
def handle (j : Json) : Except String Json := do
  let vr ← getVariant (fieldD j "variant" (Json.str "current"))
  let prm ← getParams (← field j "params")
  let g ← getGraph (← field j "graph")
  let rs ← getRules (← field j "rules")
  let sources := findSources vr g rs
  let sinks := findSinks vr g rs
  let srcNodes := sources.filterMap id
  let distinct := dedupNat srcNodes
  let envs := distinct.map (fun s => (s, propagate g prm s))
  let props := envs.map (fun (s, e) =>
    Json.arr #[jNat s, jList jInt e.symT, jList jInt e.stT, jList jNat e.processed, jBool e.wl.isEmpty,
               jList (fun (l : LianVerif.Reach.Loc) => Json.arr #[jBool l.1, jInt l.2]) (LianVerif.Reach.reachSat g prm s)])
  let tags := envs.flatMap (fun (s, e) => sinks.map (fun k =>
    let t := sinkTag vr g rs e k
    Json.arr #[jNat s, jNat k, jBool t.tag, jOptStr t.vuln, jBool t.err]))
  let allDone := envs.all (fun (_, e) => e.wl.isEmpty)
  let flows := if allDone then findFlows vr g prm rs srcNodes sinks else []
  let noneSrc := sources.any (·.isNone) && !sinks.isEmpty
  -- (= flowsErr vr g prm rs srcNodes sinks, read off the sink tags computed above instead of propagating again)
  let err := allDone && envs.any (fun (_, e) => sinks.any (fun k => (sinkTag vr g rs e k).err))
  pure (Json.mkObj [
    ("typed", jBool (typed g)), ("edge_typed", jBool (edgeTyped g)), ("rules_wf", jBool (rulesWf rs)),
    ("sources", jList jOptNat sources), ("sinks", jList jNat sinks),
    ("props", Json.arr props.toArray), ("tags", Json.arr tags.toArray),
    ("flows", jList (fun (f : Flow) => Json.arr #[jNat f.src, jNat f.sink, jOptStr f.vuln]) flows),
    ("err", if noneSrc then Json.str "none-source" else if err then Json.str "unbound-target-pos" else Json.null)])

/-! serialisation of the witness cases of Spec/TaintWitness.lean in the request format -/

def unitsOf (g : Graph) : List (String × String) :=
  g.nodes.foldl (fun acc n => if acc.contains (n.unitPath, n.unitLang) then acc
                              else acc ++ [(n.unitPath, n.unitLang)]) []

def jNode (units : List (String × String)) (n : Node) : Json :=
  Json.arr #[jNat n.kind, jInt n.defStmt, jInt n.index, jInt n.nodeId, jInt n.ctx, Json.str n.name,
    jInt n.lineNo, Json.str n.operation,
    jList (fun (k : APKey) => Json.arr #[jNat (if k.isStr then 1 else 0), Json.str k.text]) n.ap,
    Json.str n.sField, Json.str n.sReceiver, Json.str n.sName, Json.str n.sKey, jInt n.startRow,
    jNat (units.idxOf (n.unitPath, n.unitLang))]

def jEdge (e : Edge) : Json := Json.arr #[jNat e.peer, jNat e.etype, jInt e.pos]

def jGraph (g : Graph) : Json :=
  let units := unitsOf g
  Json.mkObj [("units", jList (fun (u : String × String) => Json.arr #[Json.str u.1, Json.str u.2]) units),
    ("nodes", jList (jNode units) g.nodes), ("out", jList (jList jEdge) g.out),
    ("in", jList (jList jEdge) g.inn)]

def jTarget (t : RTarget) : Json :=
  match t with
  | .none => Json.null
  | .str s => Json.str s
  | .list l => jList jOptStr l

def jOptInt (o : Option Int) : Json :=
  match o with
  | some n => jInt n
  | none => Json.null

def jRule (r : Rule) : Json :=
  Json.arr #[Json.str r.lang, jOptStr r.name, jOptStr r.operation, jTarget r.target, jOptStr r.attr,
    jOptStr r.unitPath, jOptStr r.unitName, jOptInt r.lineNum, jOptStr r.key, jOptStr r.vulnType]

def jCodeRule (c : CodeRule) : Json :=
  Json.arr #[Json.str c.unitPath, jInt c.lineNum, Json.str c.symbolName, Json.str c.lang]

def jRules (rs : RuleSet) : Json :=
  Json.mkObj [("sources", jList jRule rs.sources), ("sinks", jList jRule rs.sinks),
    ("src_code", jList jCodeRule rs.srcCode), ("sink_code", jList jCodeRule rs.sinkCode)]

/-- flows (as [def_stmt of the source symbol, def_stmt of the sink, vuln]) or the error of a run -/
def jOutcome (vr : Variant) (g : Graph) (prm : Params) (rs : RuleSet) : Json :=
  let srcs := (findSources vr g rs).filterMap id
  let sinks := findSinks vr g rs
  if flowsErr vr g prm rs srcs sinks then Json.str "unbound-target-pos"
  else jList (fun (f : Flow) => Json.arr #[jInt (g.node f.src).defStmt, jInt (g.node f.sink).defStmt,
                                            jOptStr f.vuln]) (findFlows vr g prm rs srcs sinks)

def handleWitnesses (prm : Params) : Json :=
  Json.mkObj [("prm0", jList Json.str LianVerif.TaintWitness.prm0.propOps), ("cases",
  jList (fun (c : LianVerif.TaintWitness.WCase) =>
    Json.mkObj [("name", Json.str c.name), ("graph", jGraph c.g), ("rules", jRules c.rs),
      ("frozen", jOutcome c.frozen c.g (c.frozenPrm prm) c.rs), ("current", jOutcome current c.g prm c.rs)])
    LianVerif.TaintWitness.allCases)]

/-- request {"m":"taintrules",…}: per node the decision of every matcher, in the order
[callSource, objCallSource, paramSource, fieldReadSource, srcCode, callSink, objCallSink,
 recordSink, fieldSink, sinkCode, propagates, #sinkMatching] -/
def handleRules (j : Json) : Except String Json := do
  let vr ← getVariant (fieldD j "variant" (Json.str "current"))
  let prm ← getParams (← field j "params")
  if (fieldD j "op" Json.null) == Json.str "witnesses" then
    return handleWitnesses prm
  let g ← getGraph (← field j "graph")
  let rs ← getRules (← field j "rules")
  let rows := (List.range g.size).map (fun n =>
    let nd := g.node n
    Json.arr #[jBool (callSource vr g rs n), jBool (objCallSource vr g rs n), jBool (paramSource vr g rs n),
               jBool (fieldReadSource vr g rs n), jBool (codeMatch vr nd rs.srcCode),
               jBool (callSink vr g rs n), jBool (objCallSink vr g rs n), jBool (recordSink vr g rs n),
               jBool (fieldSink vr g rs n), jBool (codeMatch vr nd rs.sinkCode),
               jBool (propagates prm nd.name), jNat (sinkMatching vr g rs n).length])
  pure (Json.mkObj [("typed", jBool (typed g)), ("rules_wf", jBool (rulesWf rs)),
                    ("rows", Json.arr rows.toArray)])

end LianVerif.Drv.Taint
