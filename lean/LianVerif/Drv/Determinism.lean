import LianVerif.Drv.Util
import LianVerif.Model.Determinism
import LianVerif.Model.PathStore

namespace LianVerif.Drv.Determinism
open Lean LianVerif.Drv LianVerif.Determinism

def getParam (j : Json) : Except String Param := do
  let a ← getArr j
  if a.size != 3 then throw "param must be [position, name, symbol_id]"
  pure { position := ← getInt a[0]!, name := ← getStr a[1]!, symbolId := ← getInt a[2]! }

def getParamOpt (j : Json) : Except String (Option Param) :=
  match j with
  | .null => pure none
  | _ => do pure (some (← getParam j))

def getArg (j : Json) : Except String Arg := do
  let a ← getArr j
  if a.size != 4 then throw "arg must be [index_in_space, state_id, source_symbol_id, access_path]"
  pure { indexInSpace := ← getInt a[0]!, stateId := ← getInt a[1]!, sourceSymbolId := ← getInt a[2]!,
         accessPath := ← getStr a[3]! }

def getNamed (j : Json) : Except String (String × List Arg) := do
  let a ← getArr j
  if a.size != 2 then throw "named arg must be [name, [args]]"
  pure (← getStr a[0]!, ← listOf getArg a[1]!)

def getIntPair (j : Json) : Except String (Int × Int) := do
  let a ← getArr j
  if a.size != 2 then throw "pair must have 2 ints"
  pure (← getInt a[0]!, ← getInt a[1]!)

def getConsts (j : Json) : Except String Consts := do
  pure { parameterDecl := ← getStr (← field j "parameter_decl"),
         packedPositional := ← getStr (← field j "packed_positional"),
         packedNamed := ← getStr (← field j "packed_named"),
         arrayElement := ← getInt (← field j "array_element"),
         fieldElement := ← getInt (← field j "field_element") }

def getMapIn (j : Json) : Except String MapIn := do
  pure { allParams := ← listOf getParam (← field j "all_parameters"),
         positional := ← listOf getParam (← field j "positional_parameters"),
         packedPositional := ← getParamOpt (fieldD j "packed_positional" Json.null),
         packedNamed := ← getParamOpt (fieldD j "packed_named" Json.null),
         posArgs := ← listOf (listOf getArg) (← field j "positional_args"),
         namedArgs := ← listOf getNamed (← field j "named_args"),
         defaults := ← listOf getIntPair (← field j "defaults") }

def jMapping (m : Mapping) : Json :=
  Json.arr #[jInt m.argIndexInSpace, jInt m.argStateId, jInt m.argSourceSymbolId, jInt m.paramSymbolId,
             Json.str m.argAccessPath, Json.str m.paramType,
             (match m.paramAccessPath with
              | none => Json.null
              | some p => Json.arr #[jInt p.kind, Json.str p.key, jInt p.stateId]),
             jInt (if m.isDefault then 1 else 0)]

def getIdxVal (j : Json) : Except String (Int × String) := do
  let a ← getArr j
  if a.size != 2 then throw "state must be [index, value]"
  pure (← getInt a[0]!, ← getStr a[1]!)

def getItem (j : Json) : Except String (List Int × List Json) := do
  let a ← getArr j
  if a.size != 2 then throw "item must be [key, [rows]]"
  pure (← listOf getInt a[0]!, (← getArr a[1]!).toList)

partial def getEntry (j : Json) : Except String Entry := do
  let a ← getArr j
  if a.size == 1 then pure (.file (← getStr a[0]!))
  else if a.size == 2 then
    let cs ← (← getArr a[1]!).toList.mapM getEntry
    pure (.dir (← getStr a[0]!) cs)
  else throw "entry must be [name] or [name, [children]]"

def jModRow (r : ModRow) : Json :=
  Json.arr #[jNat r.1, Json.str r.2.1, jNat r.2.2.1, jNat (if r.2.2.2 then 1 else 0)]

abbrev Site := Int × Int × Int
def getSite (j : Json) : Except String Site := do
  let a ← getArr j
  if a.size != 3 then throw "site must have 3 ints"
  pure (← getInt a[0]!, ← getInt a[1]!, ← getInt a[2]!)
def validSite (s : Site) : Bool := decide (0 ≤ s.1) && decide (0 ≤ s.2.1) && decide (0 ≤ s.2.2)
def jSite (s : Site) : Json := Json.arr #[jInt s.1, jInt s.2.1, jInt s.2.2]

/-- request: {"m":"determinism","site":…, …}. -/
def handle (j : Json) : Except String Json := do
  let site ← getStr (← field j "site")
  match site with
  | "map_args" =>
    let c ← getConsts (← field j "consts")
    let i ← getMapIn (← field j "in")
    let variant ← getStr (fieldD j "variant" (Json.str "current"))
    let out ← match variant with
      | "current" => pure (mapArgs c i)
      | "pinned" => pure (mapArgs0 c i)
      | "fix1" => pure (mapArgs1 c i)
      | v => throw s!"unknown variant {v}"
    pure (jList jMapping out)
  | "require" =>
    let variant ← getStr (fieldD j "variant" (Json.str "current"))
    match variant with
    | "current" =>
      let st ← listOf getIdxVal (← field j "states")
      pure (jList Json.str (requireValues st))
    | "pinned" =>
      let vs ← listOf getStr (← field j "value_set_iter")
      pure (jList Json.str (requireValues0 vs))
    | v => throw s!"unknown variant {v}"
  | "array_types" =>
    let variant ← getStr (fieldD j "variant" (Json.str "current"))
    match variant with
    | "current" => pure (jList Json.str (arrayTypes (← listOf getStr (← field j "element_types"))))
    | "pinned" => pure (jList Json.str (arrayTypes0 (← listOf getStr (← field j "type_set_iter"))))
    | v => throw s!"unknown variant {v}"
  | "mock_unit" =>
    let variant ← getStr (fieldD j "variant" (Json.str "current"))
    let path ← getStr (← field j "unit_path")
    match variant with
    | "current" => pure (Json.bool (mockUnit (← getBool (← field j "is_extern")) path))
    | "pinned" => pure (Json.bool (mockUnit0 (← getStr (← field j "marker")) path))
    | v => throw s!"unknown variant {v}"
  | "original_path" =>
    let variant ← getStr (fieldD j "variant" (Json.str "current"))
    let table ← listOf (fun kv => do
      let a ← getArr kv
      if a.size != 2 then throw "table entry must be [key, value]"
      pure (← getStr a[0]!, ← getStr a[1]!)) (← field j "table")
    let entry ← getStr (← field j "entry")
    match variant with
    | "current" =>
      let real ← getStr (← field j "real")
      pure (Json.str (originalPath table (fun _ => real) entry))
    | "pinned" => pure (Json.str (originalPath0 table entry))
    | v => throw s!"unknown variant {v}"
  | "bundle_export" =>
    let items ← listOf getItem (← field j "items")
    let kind ← getStr (fieldD j "key_kind" (Json.str "plain"))
    let cmp ← match kind with
      | "plain" => pure (fun (k : List Int) => k)
      | "callsite" => pure callSiteKey
      | v => throw s!"unknown key_kind {v}"
    pure (Json.arr (bundleExport cmp items).toArray)
  | "call_path_rows" =>
    let paths := (← getArr (← field j "iter")).toList
    pure (jList (fun (r : Nat × Json) => Json.arr #[jNat r.1, r.2]) (callPathRows paths))
  | "number_modules" =>
    let start ← getNat (← field j "start")
    let src ← (← getArr (← field j "src")).toList.mapM getEntry
    let ext ← (← getArr (← field j "externs")).toList.mapM getEntry
    pure (jList jModRow (numberModules start src ext))
  | "path_batch" =>
    -- a batch of PathManager.add_path calls (add-only history): the stored paths at the end
    let paths ← listOf (listOf getSite) (← field j "adds")
    let ops := paths.map (fun p => LianVerif.PathStore.Op.add p)
    let s := (LianVerif.PathStore.run (LianVerif.PathStore.step validSite) LianVerif.PathStore.Store.empty ops).1
    pure (jList (jList jSite) s.terms)
  | s => throw s!"unknown site {s}"

end LianVerif.Drv.Determinism
