/- JSON encodings of GIR trees and rows for the driver (trusted glue; not part of any theorem).

tree  : null | int | "str" | [tree, …] | {"o": [[key, tree], …]}      (objects keep their key order)
row   : {"op": str, "id": nat, "p": nat, "a": [[key, null | int | str], …]}
-/
import LianVerif.Drv.Util
import LianVerif.Gir.Tree

namespace LianVerif.Drv.GirJson
open Lean LianVerif.Drv LianVerif.Gir

partial def getTree (j : Json) : Except String JVal :=
  match j with
  | .null => pure .null
  | .str s => pure (.str s)
  | .num _ => do pure (.int (← getInt j))
  | .arr a => do pure (.list (← a.toList.mapM getTree))
  | .obj _ => do
    let kvs ← getArr (← field j "o")
    let l ← kvs.toList.mapM (fun kv => do
      let p ← getArr kv
      if p.size != 2 then throw "object entry must be [key, value]"
      pure (← getStr p[0]!, ← getTree p[1]!))
    pure (.obj l)
  | _ => throw s!"unsupported tree value {j.compress}"

def getAVal (j : Json) : Except String AVal :=
  match j with
  | .null => pure .none
  | .str s => pure (.str s)
  | .num _ => do pure (.int (← getInt j))
  | _ => throw s!"unsupported cell {j.compress}"

def getRow (j : Json) : Except String Row := do
  let attrs ← (← getArr (fieldD j "a" (Json.arr #[]))).toList.mapM (fun kv => do
    let p ← getArr kv
    if p.size != 2 then throw "attr must be [key, value]"
    pure (← getStr p[0]!, ← getAVal p[1]!))
  pure { op := ← getStr (← field j "op"), id := ← getNat (← field j "id"),
         parent := ← getNat (← field j "p"), attrs := attrs }

def jAVal : AVal → Json
  | .none => Json.null
  | .int n => jInt n
  | .str s => Json.str s

def jRow (r : Row) : Json :=
  Json.mkObj [("op", Json.str r.op), ("id", jNat r.id), ("p", jNat r.parent),
              ("a", jList (fun kv => Json.arr #[Json.str kv.1, jAVal kv.2]) r.attrs)]

def getStrList (j : Json) (k : String) (d : List String) : Except String (List String) :=
  match j.getObjVal? k with
  | .ok v => listOf getStr v
  | .error _ => pure d

end LianVerif.Drv.GirJson
