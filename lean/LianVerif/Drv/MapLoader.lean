import LianVerif.Drv.Util
import LianVerif.Model.MapLoader

namespace LianVerif.Drv.MapLoader
open Lean LianVerif.Drv LianVerif.MapLoader

def getOp (j : Json) : Except String (Op Int Int) := do
  let a ← getArr j
  if a.size < 1 then throw "empty op"
  let k ← getStr a[0]!
  match k with
  | "save" =>
    if a.size != 3 then throw "save needs one and many"
    pure (.save (← getInt a[1]!) (← listOf getInt a[2]!))
  | "one2many" => if a.size != 2 then throw "one2many needs key" else pure (.oneToMany (← getInt a[1]!))
  | "many2one" => if a.size != 2 then throw "many2one needs key" else pure (.manyToOne (← getInt a[1]!))
  | "export" => pure .exp
  | "restore" => pure .restore
  | _ => throw s!"unknown op {k}"

def jOut : Out Int Int → Json
  | .unit => Json.null
  | .many bs => jList jInt bs
  | .one none => jInt (-1)
  | .one (some a) => jInt a
  | .fileNotFound => Json.str "filenotfound"

def jState (s : M Int Int) : Json :=
  Json.mkObj [
    ("o2m", jList (fun p => Json.arr #[jInt p.1, jList jInt p.2]) s.one2many),
    ("m2o", jList (fun p => Json.arr #[jInt p.1, jInt p.2]) s.many2one),
    ("file", match s.file with
      | some l => jList (fun p => Json.arr #[jInt p.1, jList jInt p.2]) l
      | none => Json.null)]

/-- request: {"variant": "current"|"pinned", "ops": [...]}; reply: per op [output, state-after]. -/
def handle (j : Json) : Except String Json := do
  let ops ← listOf getOp (← field j "ops")
  let variant ← getStr (fieldD j "variant" (Json.str "current"))
  let tr ← match variant with
    | "current" => pure (trace step (M.init : M Int Int) ops)
    | "pinned" => pure (trace step0 (M.init : M Int Int) ops)
    | v => throw s!"unknown variant {v}"
  pure (jList (fun o => Json.arr #[jOut o.1, jState o.2]) tr)

end LianVerif.Drv.MapLoader
