import LianVerif.Drv.Util
import LianVerif.Drv.Fold
import LianVerif.Model.Aref

/-! Driver handler for model "aref" (LianVerif/Model/Aref.lean).

request  {"m":"aref","variant":"current"|"pinned","prog":{"classes":[{"name":…,"fields":[[f,null|c],…]}],
          "helpers":[{"name":…,"params":[[key,var],…],"body":[hstmt,…],"ret":var}],"body":[stmt,…]}}
  stmt = ["const",key,x,c] | ["copy",key,x,y] | ["bin",key,x,op,a,b] | ["if",i,[stmt…],[stmt…]]
       | ["new",key,x,cls,a] | ["fwrite",o,f,a] | ["fread",key,x,o,f] | ["call",key,x,h,[a,…]]
  a = ["v",name] | ["c",c] ;  c = integer | string | boolean
reply    [[key,[aval,…]],…] | null     aval = ["i",n] | ["s",text] | ["b",bool] | ["o",site] | ["u"]
-/
namespace LianVerif.Drv.Aref
open Lean LianVerif.Drv LianVerif.PyStrLit LianVerif.Aref

def getConst (j : Json) : Except String PyVal :=
  match j with
  | .str s => pure (.str (LianVerif.Drv.Fold.toStr s))
  | .bool b => pure (.bool b)
  | _ => do pure (.int (← getInt j))

def getOpnd (j : Json) : Except String Opnd := do
  let a ← getArr j
  if a.size != 2 then throw "operand must be [kind, x]"
  match ← getStr a[0]! with
  | "v" => pure (.var (← getStr a[1]!))
  | "c" => pure (.const (← getConst a[1]!))
  | k => throw s!"unknown operand kind {k}"

def getHStmt (j : Json) : Except String HStmt := do
  let a ← getArr j
  match ← getStr a[0]! with
  | "const" => pure (.const (← getStr a[1]!) (← getStr a[2]!) (← getConst a[3]!))
  | "bin" => pure (.bin (← getStr a[1]!) (← getStr a[2]!) (← getStr a[3]!) (← getOpnd a[4]!) (← getOpnd a[5]!))
  | k => throw s!"unknown helper statement {k}"

partial def getBlock (j : Json) : Except String Prg := do
  let a ← getArr j
  let stmts ← a.toList.mapM getStmt
  pure (stmts.foldr (fun s acc => Prg.seq s acc) Prg.skip)
where
  getStmt (j : Json) : Except String Prg := do
    let a ← getArr j
    match ← getStr a[0]! with
    | "const" => pure (.const (← getStr a[1]!) (← getStr a[2]!) (← getConst a[3]!))
    | "copy" => pure (.copy (← getStr a[1]!) (← getStr a[2]!) (← getStr a[3]!))
    | "bin" => pure (.bin (← getStr a[1]!) (← getStr a[2]!) (← getStr a[3]!) (← getOpnd a[4]!) (← getOpnd a[5]!))
    | "if" => pure (.ite (← getNat a[1]!) (← getBlock a[2]!) (← getBlock a[3]!))
    | "new" => pure (.new (← getStr a[1]!) (← getStr a[2]!) (← getStr a[3]!) (← getOpnd a[4]!))
    | "fwrite" => pure (.fwrite (← getStr a[1]!) (← getStr a[2]!) (← getOpnd a[3]!))
    | "fread" => pure (.fread (← getStr a[1]!) (← getStr a[2]!) (← getStr a[3]!) (← getStr a[4]!))
    | "call" => pure (.call (← getStr a[1]!) (← getStr a[2]!) (← getStr a[3]!) (← listOf getOpnd a[4]!))
    | k => throw s!"unknown statement {k}"

def getField (j : Json) : Except String (String × Option PyVal) := do
  let a ← getArr j
  let f ← getStr a[0]!
  match a[1]! with
  | .null => pure (f, none)
  | c => do pure (f, some (← getConst c))

def getCls (j : Json) : Except String Cls := do
  pure { name := ← getStr (← field j "name"), fields := ← listOf getField (← field j "fields") }

def getParam (j : Json) : Except String (Key × Var) := do
  let a ← getArr j
  pure (← getStr a[0]!, ← getStr a[1]!)

def getHelper (j : Json) : Except String Helper := do
  pure { name := ← getStr (← field j "name"), params := ← listOf getParam (← field j "params"),
         body := ← listOf getHStmt (← field j "body"), ret := ← getStr (← field j "ret") }

def getProg (j : Json) : Except String Prog := do
  pure { classes := ← listOf getCls (← field j "classes"), helpers := ← listOf getHelper (← field j "helpers"),
         body := ← getBlock (← field j "body") }

def jAVal : AVal → Json
  | .unknown => Json.arr #["u"]
  | .obj s => Json.arr #["o", Json.str s]
  | .const v =>
    match LianVerif.Drv.Fold.jVal v with
    | some a => Json.arr a
    | none => Json.arr #["x", "surrogate"]

def handle (j : Json) : Except String Json := do
  let variant ← getStr (fieldD j "variant" (Json.str "current"))
  let P ← getProg (← field j "prog")
  let ab : ABin ← match variant with
    | "current" => pure foldBin
    | "pinned" => pure foldBin0
    | v => throw s!"unknown variant {v}"
  match run ab P with
  | none => pure Json.null
  | some log => pure (jList (fun p => Json.arr #[Json.str p.1, jList jAVal p.2]) log)

end LianVerif.Drv.Aref
