import LianVerif.Drv.Util
import LianVerif.Model.Fold

/-! Driver handler for model "fold" (LianVerif/Model/Fold.lean, LianVerif/Spec/PyStrLit.lean).

request  {"m":"fold","kind":"fold","variant":"current"|"pinned","op":"+","s1":[k,v,dt],"s2":[k,v,dt]}
         k = "s"|"i"|"b" (Python str / int / bool object in State.value), dt = "int"|"string"|"other"|"non"
reply    ["none"] | ["state",[k,v],dt] | ["crash"] | ["unmodelled"]
request  {"m":"fold","kind":"bin","variant":…,"op":…,"S1":[[k,v,dt]|null,…],"S2":[…]}   (null = non-REGULAR state)
reply    ["states",[[k,v,dt]|null,…]] | ["crash"] | ["unmodelled"]
request  {"m":"fold","kind":"eval","text":"…"}      reply ["ok",[k,v]] | ["err"] | ["unmodelled"]
request  {"m":"fold","kind":"repr","s":"…"}         reply "…"   (pyRepr with the ASCII printable predicate)
request  {"m":"fold","kind":"params"}               reply {"maxBits":…,"maxStrLen":…}
-/
namespace LianVerif.Drv.Fold
open Lean LianVerif.Drv LianVerif.PyStrLit LianVerif.Fold

def toStr (s : String) : Str := s.toList.map Char.toNat

def isSurrogate (c : Nat) : Bool := decide (0xD800 ≤ c) && decide (c ≤ 0xDFFF)

def ofStr (s : Str) : String := String.ofList (s.map Char.ofNat)

def getObj (k : String) (v : Json) : Except String Obj :=
  match k with
  | "s" => do pure (.str (toStr (← getStr v)))
  | "i" => do pure (.int (← getInt v))
  | "b" => do pure (.bool (← getBool v))
  | _ => throw s!"unknown value kind {k}"

def getDT : String → Except String DT
  | "int" => pure .int
  | "string" => pure .string
  | "other" => pure .otherBuiltin
  | "non" => pure .nonBuiltin
  | d => throw s!"unknown data type {d}"

def getSt (j : Json) : Except String St := do
  let a ← getArr j
  if a.size != 3 then throw "state must be [kind, value, dt]"
  pure { val := ← getObj (← getStr a[0]!) a[1]!, dt := ← getDT (← getStr a[2]!) }

def getAState (j : Json) : Except String AState :=
  match j with
  | .null => pure .nonreg
  | _ => do pure (.reg (← getSt j))

def jDT : DT → Json
  | .int => "int" | .string => "string" | .otherBuiltin => "other" | .nonBuiltin => "non"

/-- `none` when the value holds a surrogate code point (cannot travel through JSON). -/
def jVal : PyVal → Option (Array Json)
  | .int n => some #[Json.str "i", jInt n]
  | .bool b => some #[Json.str "b", Json.bool b]
  | .str s => if s.any isSurrogate then none else some #[Json.str "s", Json.str (ofStr s)]

def jOut : Out → Json
  | .none => Json.arr #["none"]
  | .crash => Json.arr #["crash"]
  | .unmodelled => Json.arr #["unmodelled"]
  | .state v dt =>
    match jVal v with
    | some a => Json.arr #["state", Json.arr a, jDT dt]
    | none => Json.arr #["unmodelled"]

def jBin : BinRes → Json
  | .crash => Json.arr #["crash"]
  | .unmodelled => Json.arr #["unmodelled"]
  | .states l =>
    let items := l.map (fun o => match o with
      | .anything => some Json.null
      | .val v dt => (jVal v).map (fun a => Json.arr (a.push (jDT dt))))
    if items.any Option.isNone then Json.arr #["unmodelled"]
    else Json.arr #["states", Json.arr (items.filterMap id).toArray]

def handle (j : Json) : Except String Json := do
  let kind ← getStr (← field j "kind")
  match kind with
  | "params" => pure (Json.mkObj [("maxBits", jNat maxBits), ("maxStrLen", jNat maxStrLen)])
  | "eval" =>
    let text ← getStr (← field j "text")
    match pyEval (toStr text) with
    | .ok v => match jVal v with
      | some a => pure (Json.arr #["ok", Json.arr a])
      | none => pure (Json.arr #["unmodelled"])
    | .err => pure (Json.arr #["err"])
    | .unmodelled => pure (Json.arr #["unmodelled"])
  | "repr" =>
    let s ← getStr (← field j "s")
    pure (Json.str (ofStr (pyRepr asciiPrintable (toStr s))))
  | "fold" =>
    let variant ← getStr (fieldD j "variant" (Json.str "current"))
    let op ← getStr (← field j "op")
    let s1 ← getSt (← field j "s1")
    let s2 ← getSt (← field j "s2")
    match variant with
    | "current" => pure (jOut (fold asciiPrintable op s1 s2))
    | "pinned" => pure (jOut (fold0 op s1 s2))
    | v => throw s!"unknown variant {v}"
  | "bin" =>
    let variant ← getStr (fieldD j "variant" (Json.str "current"))
    let op ← getStr (← field j "op")
    let S1 ← listOf getAState (← field j "S1")
    let S2 ← listOf getAState (← field j "S2")
    match variant with
    | "current" => pure (jBin (binStates asciiPrintable op S1 S2))
    | "pinned" => pure (jBin (binStates0 op S1 S2))
    | v => throw s!"unknown variant {v}"
  | k => throw s!"unknown kind {k}"

end LianVerif.Drv.Fold
