import LianVerif.Drv.Util
import LianVerif.Model.Table
import LianVerif.Model.TableAlias
import LianVerif.Spec.Scan

/-! Driver for model "table" (C16).  Request:
`{"m":"table","variant":"current"|"pinned"|"spec"|[b,b,b,b,b],"ctor":<ctor>,"ops":[<wop>,…]}`;
reply: `[[<out>, <frame of the current table afterwards>], …]`, one entry per operation. -/
namespace LianVerif.Drv.Table
open Lean LianVerif.Drv LianVerif.Table

def getCell (j : Json) : Except String Cell :=
  match j with
  | .null => pure .none
  | .str s => pure (.str s)
  | _ => do let n ← getInt j; pure (.int n)

def jCell : Cell → Json
  | .none => Json.null
  | .int n => jInt n
  | .str s => Json.str s

def getFrame (j : Json) : Except String Frame := do
  let cols ← listOf getStr (← field j "cols")
  let labels ← listOf getInt (← field j "labels")
  let rows ← listOf (listOf getCell) (← field j "rows")
  if cols.eraseDups.length != cols.length then throw "duplicate column names are not modelled"
  if labels.length != rows.length then throw "labels/rows length mismatch"
  if labels.eraseDups.length != labels.length then throw "duplicate row labels are not modelled"
  if !rows.all (fun r => r.length == cols.length) then throw "ragged rows"
  pure { cols := cols, labels := labels, rows := rows }

def jFrame (f : Frame) : Json :=
  Json.mkObj [("cols", jList Json.str f.cols), ("labels", jList jInt f.labels),
              ("rows", jList (jList jCell) f.rows)]

def getPair (j : Json) : Except String (String × Cell) := do
  let a ← getArr j
  if a.size != 2 then throw "pair expected"
  pure (← getStr a[0]!, ← getCell a[1]!)

def getOptStr (j : Json) : Except String (Option String) :=
  match j with
  | .null => pure none
  | _ => do pure (some (← getStr j))

def getOptNat (j : Json) : Except String (Option Nat) :=
  match j with
  | .null => pure none
  | _ => do pure (some (← getNat j))

def getCtor (j : Json) : Except String Ctor := do
  let a ← getArr j
  let k ← getStr a[0]!
  match k with
  | "rows" =>
    let cols ← listOf getStr a[1]!
    let rows ← listOf (listOf getCell) a[2]!
    if cols.eraseDups.length != cols.length then throw "duplicate column names are not modelled"
    if !rows.all (fun r => r.length == cols.length) then throw "ragged rows"
    pure (.rows cols rows (← getBool a[3]!))
  | "dicts" => pure (.dicts (← listOf (listOf getPair) a[1]!))
  | "frame" => pure (.frame (← getFrame a[1]!) (← getBool a[2]!))
  | "load" => pure (.load (← getFrame a[1]!))
  | _ => throw s!"unknown ctor {k}"

def getOp (a : Array Json) : Except String Op := do
  let k ← getStr a[0]!
  match k with
  | "len" => pure .len
  | "isEmpty" => pure .isEmpty
  | "getRows" => pure .getRows
  | "iter" => pure .iter
  | "accessPos" => pure (.accessPos (← getInt a[1]!))
  | "accessList" => pure (.accessList (← listOf getInt a[1]!))
  | "accessLoc" => pure (.accessLoc (← getInt a[1]!) (← getStr a[2]!))
  | "column" => pure (.column (← getStr a[1]!))
  | "queryIdx" => pure (.queryIdx (← getStr a[1]!) (← getCell a[2]!))
  | "queryTable" => pure (.queryTable (← getStr a[1]!) (← getCell a[2]!))
  | "queryFirst" => pure (.queryFirst (← getStr a[1]!) (← getCell a[2]!))
  | "searchBlock" => pure (.searchBlock (← getCell a[1]!))
  | "readBlock" => pure (.readBlock (← getCell a[1]!) (← getBool a[2]!))
  | "readBlockWith" => pure (.readBlockWith (← getCell a[1]!) (← getBool a[2]!))
  | "boundary" => pure (.boundary (← listOf getCell a[1]!))
  | "slowQueryEq" =>
    pure (.slowQueryEq (← getStr a[1]!) (← getCell a[2]!) (← getOptStr a[3]!) (← getBool a[4]!))
  | "slowQueryIsin" => pure (.slowQueryIsin (← getStr a[1]!) (← listOf getCell a[2]!) (← getBool a[3]!))
  | "slowQueryLabels" => pure (.slowQueryLabels (← listOf getInt a[1]!) (← getBool a[2]!))
  | "toDicts" => pure .toDicts
  | "slice" => pure (.slice (← getInt a[1]!) (← getInt a[2]!))
  | "clone" => pure .clone
  | "modifyRow" => pure (.modifyRow (← getInt a[1]!) (← listOf getCell a[2]!) (← getOptNat a[3]!))
  | "modifyColumn" => pure (.modifyColumn (← getStr a[1]!) (← getCell a[2]!))
  | "modifyColumnList" => pure (.modifyColumnList (← getStr a[1]!) (← listOf getCell a[2]!))
  | "modifyElement" =>
    pure (.modifyElement (← getInt a[1]!) (← getStr a[2]!) (← getCell a[3]!) (← getBool a[4]!))
  | "renameColumn" => pure (.renameColumn (← getStr a[1]!) (← getStr a[2]!))
  | "append" => pure (.append (← getFrame a[1]!))
  | "removeRows" => pure (.removeRows (← getStr a[1]!) (← getCell a[2]!))
  | "resetIndex" => pure (.resetIndex (← getBool a[1]!))
  | "fillna" => pure (.fillna (← getCell a[1]!))
  | "setColumns" => pure (.setColumns (← listOf getStr a[1]!))
  | "saveLoad" => pure (.saveLoad (← getBool a[1]!))
  | _ => throw s!"unknown op {k}"

def getWOp (j : Json) : Except String WOp := do
  let a ← getArr j
  let k ← getStr a[0]!
  match k with
  | "swap" => pure .swap
  | "appendOther" => pure .appendOther
  | "enter" => pure (.on (← getOp (← getArr a[1]!)) true)
  | _ => pure (.on (← getOp a) false)

def jErr : Err → Json
  | .key => "key" | .index => "index" | .value => "value" | .type => "type" | .quit => "quit"
  | .unmodelled => "unmodelled"

def jRow (r : RowV) : Json := Json.arr #[jList jCell r.cells, jList Json.str r.schema, jInt r.index]

def jOut : Out → Json
  | .unit => Json.arr #["unit"]
  | .none => Json.arr #["none"]
  | .emptyList => Json.arr #["empty"]
  | .err e => Json.arr #["err", jErr e]
  | .bool b => Json.arr #["bool", Json.bool b]
  | .int i => Json.arr #["int", jInt i]
  | .cell c => Json.arr #["cell", jCell c]
  | .cells l => Json.arr #["cells", jList jCell l]
  | .positions l => Json.arr #["pos", jList jNat l]
  | .row r => Json.arr #["row", jRow r]
  | .rows l => Json.arr #["rows", jList (fun o => match o with | some r => jRow r | none => Json.null) l]
  | .matrix m => Json.arr #["matrix", jList (jList jCell) m]
  | .frame f => Json.arr #["frame", jFrame f]
  | .dicts l => Json.arr #["dicts", jList (jList (fun kv => Json.arr #[Json.str kv.1, jCell kv.2])) l]

def getVariant (j : Json) : Except String (Option Variant) :=
  match j with
  | .str "current" => pure (some current)
  | .str "pinned" => pure (some pinned)
  | .str "spec" => pure none
  | .arr a => do
    if a.size != 5 then throw "variant flags: 5 booleans"
    pure (some ⟨← getBool a[0]!, ← getBool a[1]!, ← getBool a[2]!, ← getBool a[3]!, ← getBool a[4]!⟩)
  | _ => throw "unknown variant"

def handle (j : Json) : Except String Json := do
  let ctor ← getCtor (← field j "ctor")
  let ops ← listOf getWOp (← field j "ops")
  let variant ← getVariant (fieldD j "variant" (Json.str "current"))
  let outs := match variant with
    | some v => (run v (init v ctor) ops).2
    | none => (LianVerif.Scan.specRun (LianVerif.Scan.specInit ctor) ops).2
  let first := match variant with
    | some v => (init v ctor).cur.data
    | none => (LianVerif.Scan.specInit ctor).cur
  pure (Json.mkObj [("init", jFrame first),
                    ("outs", jList (fun o => Json.arr #[jOut o.1, jFrame o.2]) outs)])


/-- model "tablealias": `{"variant":…, "ctor":…, "pre":[<op>…], "ops":[[who, <op>], …]}` — build a
table, run `pre` on it, construct a second `DataModel` from it, then run `ops` on either wrapper
(`who` = false: the original, true: the new one). Reply: `[[out, frame of that wrapper], …]`. -/
def getWhoOp (j : Json) : Except String (Bool × Op) := do
  let a ← getArr j
  if a.size != 2 then throw "[who, op] expected"
  pure (← getBool a[0]!, ← getOp (← getArr a[1]!))

def handleAlias (j : Json) : Except String Json := do
  let ctor ← getCtor (← field j "ctor")
  let pre ← listOf (fun x => do getOp (← getArr x)) (← field j "pre")
  let ops ← listOf getWhoOp (← field j "ops")
  let variant ← getVariant (fieldD j "variant" (Json.str "current"))
  let outs := match variant with
    | some v =>
      let t := (run v (init v ctor) (pre.map (fun o => WOp.on o false))).1.cur
      (runD v (Duo.share t) ops).2
    | none =>
      let f := (LianVerif.Scan.specRun (LianVerif.Scan.specInit ctor) (pre.map (fun o => WOp.on o false))).1.cur
      (LianVerif.Scan.specRunD (LianVerif.Scan.SDuo.share f) ops).2
  pure (jList (fun o => Json.arr #[jOut o.1, jFrame o.2]) outs)

end LianVerif.Drv.Table
