/- JSON helpers for the line-protocol driver (trusted glue; not part of any theorem). -/
import Lean.Data.Json

namespace LianVerif.Drv
open Lean

def getArr (j : Json) : Except String (Array Json) :=
  match j with
  | .arr a => .ok a
  | _ => .error s!"expected array, got {j.compress}"

def getInt (j : Json) : Except String Int :=
  match j.getInt? with
  | .ok n => .ok n
  | .error _ => .error s!"expected int, got {j.compress}"

def getNat (j : Json) : Except String Nat := do
  let n ← getInt j
  if n < 0 then .error s!"expected nat, got {n}" else pure n.toNat

def getStr (j : Json) : Except String String :=
  match j with
  | .str s => .ok s
  | _ => .error s!"expected string, got {j.compress}"

def getBool (j : Json) : Except String Bool :=
  match j with
  | .bool b => .ok b
  | _ => .error s!"expected bool, got {j.compress}"

def field (j : Json) (k : String) : Except String Json :=
  match j.getObjVal? k with
  | .ok v => .ok v
  | .error _ => .error s!"missing field {k}"

def fieldD (j : Json) (k : String) (d : Json) : Json :=
  match j.getObjVal? k with
  | .ok v => v
  | .error _ => d

def listOf {β} (f : Json → Except String β) (j : Json) : Except String (List β) := do
  let a ← getArr j
  a.toList.mapM f

def jInt (n : Int) : Json := Json.num (JsonNumber.fromInt n)
def jNat (n : Nat) : Json := Json.num (JsonNumber.fromNat n)
def jList {β} (f : β → Json) (l : List β) : Json := Json.arr (l.map f).toArray

end LianVerif.Drv
