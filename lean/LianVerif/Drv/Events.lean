import LianVerif.Drv.Util
import LianVerif.Model.Events
import LianVerif.Spec.Events

/-
Driver for the model "events" (C17).  Stateless: one request = one whole history.

request  {"m":"events", "any":"%", "keys":[int…],
          "beh":[[ret, mode, c] | [ret, mode, c, altIn, altRet], …],      -- handler h = index
          "ops":[["r", event, h, kind, langs] | ["n", event, lang, d], …]}
   ret / altRet : null | nat           (the handler returns altRet when the in_data it sees = altIn)
   mode         : 0 keep out_data | 1 out := in*c+h+1 | 2 out := out*c+h+1 | 3 out := c | 4 out := in
   "canon":[ns, nsing] (optional): data values are tokens for Python objects; a computed token t with
                  t % ns < nsing denotes a singleton object (None, 0, False, "", ()) and is replaced by
                  t % ns, so that distinct tokens always denote distinct objects (identity, not equality)
   kind         : "s" (langs is one string) | "t" (a set, as list) | "l" (list / tuple, as list)
reply    {"outs":[["r", warned] | ["n", flags, in, out, [[h, inSeen, outSeen, ret, outLeft], …]], …],
          "table":[[event, [[langs, h], …]], …]}
request with "variant":"spec": notifications are answered from the statement's vocabulary
   (`takeThrough blocks (fullRun (filter matches))`, `unionNorm`) instead of the loop.
-/
namespace LianVerif.Drv.Events
open Lean LianVerif.Drv LianVerif.Events

structure BehSpec where
  ret : Option Nat
  mode : Nat
  c : Nat
  alt : Option (Nat × Option Nat)

def getOptNat (j : Json) : Except String (Option Nat) :=
  match j with
  | .null => pure none
  | _ => do pure (some (← getNat j))

def getBeh (j : Json) : Except String BehSpec := do
  let a ← getArr j
  if a.size != 3 && a.size != 5 then throw "beh entry must have 3 or 5 fields"
  let ret ← getOptNat a[0]!
  let mode ← getNat a[1]!
  let c ← getNat a[2]!
  if mode > 4 then throw s!"unknown out mode {mode}"
  let alt ← if a.size == 5 then do pure (some (← getNat a[3]!, ← getOptNat a[4]!)) else pure none
  pure { ret, mode, c, alt }

def canonTok (ns nsing t : Nat) : Nat := if ns != 0 && t % ns < nsing then t % ns else t

def mkBeh (specs : Array BehSpec) (ns nsing : Nat := 0) : Beh Nat := fun h i o =>
  match specs[h]? with
  | none => (some 0, o)
  | some s =>
    let ret := match s.alt with
      | some (k, r) => if i = k then r else s.ret
      | none => s.ret
    let out := match s.mode with
      | 0 => o
      | 1 => canonTok ns nsing (i * s.c + h + 1)
      | 2 => canonTok ns nsing (o * s.c + h + 1)
      | 3 => canonTok ns nsing s.c
      | _ => i
    (ret, out)

def getOp (j : Json) : Except String (Op Int String Nat) := do
  let a ← getArr j
  if a.size < 1 then throw "empty op"
  match ← getStr a[0]! with
  | "r" =>
    if a.size != 5 then throw "reg op must have 5 fields"
    let e ← getInt a[1]!
    let h ← getNat a[2]!
    let la ← match ← getStr a[3]! with
      | "s" => do pure (LangArg.str (← getStr a[4]!))
      | "t" => do pure (LangArg.set (← listOf getStr a[4]!))
      | "l" => do pure (LangArg.other (← listOf getStr a[4]!))
      | k => throw s!"unknown langs kind {k}"
    pure (.reg e h la)
  | "n" =>
    if a.size != 4 then throw "notify op must have 4 fields"
    pure (.notify (← getInt a[1]!) (← getStr a[2]!) (← getNat a[3]!))
  | k => throw s!"unknown op {k}"

def jOptNat : Option Nat → Json
  | none => Json.null
  | some n => jNat n

def jEntry (e : Entry Nat) : Json :=
  Json.arr #[jNat e.h, jNat e.inSeen, jNat e.outSeen, jOptNat e.ret, jNat e.outLeft]

def jOut : Out Nat → Json
  | .reg w => Json.arr #[Json.str "r", Json.bool w]
  | .notify r => Json.arr #[Json.str "n", jNat r.flags, jNat r.inD, jNat r.outD, jList jEntry r.trace]

def jTable (t : Table Int String) : Json :=
  jList (fun kv => Json.arr #[jInt kv.1,
    jList (fun (r : Reg String) => Json.arr #[jList Json.str r.langs, jNat r.h]) kv.2]) t

/-- The statement's own account of one notification (no loop, no accumulator): used as a second,
structurally different evaluation in the harness.  Final `in_data` / `out_data` are computed from
the trace as in `C17_final_data`. -/
def specNotify (anyL : String) (beh : Beh Nat) (t : Table Int String) (e : Int) (lang : String)
    (d : Nat) : Result Nat :=
  match t.get e with
  | none => { flags := 0, inD := d, outD := d, trace := [] }
  | some rs =>
    let T := takeThrough (fun x => blocksRet x.ret)
      (fullRun beh (rs.filter (matchesLang anyL lang)) d d)
    { flags := unionNorm (T.map (·.ret)),
      inD := (T.getLast?.map finalIn).getD d,
      outD := (T.getLast?.map (·.outLeft)).getD d,
      trace := T }

def runSpec (anyL : String) (beh : Beh Nat) :
    Table Int String → List (Op Int String Nat) → Table Int String × List (Out Nat)
  | t, [] => (t, [])
  | t, .reg e h la :: ops =>
    let (t', w) := register t e h la
    let (tf, outs) := runSpec anyL beh t' ops
    (tf, .reg w :: outs)
  | t, .notify e lang d :: ops =>
    let (tf, outs) := runSpec anyL beh t ops
    (tf, .notify (specNotify anyL beh t e lang d) :: outs)

def handle (j : Json) : Except String Json := do
  let anyL ← getStr (← field j "any")
  let keys ← listOf getInt (← field j "keys")
  let specs ← listOf getBeh (← field j "beh")
  let ops ← listOf getOp (← field j "ops")
  let variant ← getStr (fieldD j "variant" (Json.str "model"))
  let cn ← listOf getNat (fieldD j "canon" (Json.arr #[]))
  let beh := mkBeh specs.toArray (cn.getD 0 0) (cn.getD 1 0)
  let t0 : Table Int String := emptyTable keys
  let (tf, outs) ← match variant with
    | "model" => pure (runOps anyL beh t0 ops)
    | "spec" => pure (runSpec anyL beh t0 ops)
    | v => throw s!"unknown variant {v}"
  pure (Json.mkObj [("outs", jList jOut outs), ("table", jTable tf)])

end LianVerif.Drv.Events
