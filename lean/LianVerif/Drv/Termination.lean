/-
lvdrv handlers for model "termination" (C13).  Stateless: one request = one whole run.
ops: visit | frames | taint | closure | scopes | bounds
-/
import LianVerif.Drv.Util
import LianVerif.Model.Termination
import LianVerif.Model.TerminationFrames
import LianVerif.Model.TerminationTaint
import LianVerif.Model.TerminationClosure
import LianVerif.Model.TerminationPrelim
import LianVerif.Spec.TerminationBounds

namespace LianVerif.Drv.Termination
open Lean LianVerif.Drv LianVerif.Termination LianVerif

def getPairIL (j : Json) : Except String (Int × List Int) := do
  let a ← getArr j
  if a.size != 2 then throw "expected [int, [ints]]"
  pure (← getInt a[0]!, ← listOf getInt a[1]!)

def getPairIN (j : Json) : Except String (Int × Nat) := do
  let a ← getArr j
  if a.size != 2 then throw "expected [int, nat]"
  pure (← getInt a[0]!, ← getNat a[1]!)

def getPairNI (j : Json) : Except String (Nat × Int) := do
  let a ← getArr j
  if a.size != 2 then throw "expected [nat, int]"
  pure (← getNat a[0]!, ← getInt a[1]!)

def assocFn {β : Type} (l : List (Int × β)) (d : β) : Int → β := fun x =>
  match l.find? (fun p => p.1 == x) with
  | some p => p.2
  | none => d

def jEv : Ev → Json
  | .skip s => Json.arr #[Json.str "skip", jInt s]
  | .visit s => Json.arr #[Json.str "visit", jInt s]
  | .intr s => Json.arr #[Json.str "intr", jInt s]

/-- scripted statement analysis: the k-th analysis of the frame's life is interrupted iff the k-th
entry of the script is `true` -/
def scriptAnalyse (_ : Int) (g : List Bool) : List Bool × Bool :=
  match g with
  | [] => ([], false)
  | b :: rest => (rest, b)

/-- whole life of a frame: re-enter `visitLoop` after every interruption -/
def visitLife {ω : Type} (D : Discipline ω) (succ : Int → List Int) (V : List Int) (lim : Int → Nat) :
    Nat → ω → (Int → Nat) → List Bool → List Ev → List Ev × (Int → Nat) × ω
  | 0, w, cnt, _, acc => (acc, cnt, w)
  | fuel + 1, w, cnt, g, acc =>
    let r := visitLoop D succ V lim scriptAnalyse w cnt g
    if r.interrupted then visitLife D succ V lim fuel r.w r.cnt r.g (acc ++ r.events)
    else (acc ++ r.events, r.cnt, r.w)

def handleVisit (j : Json) : Except String Json := do
  let succL ← listOf getPairIL (← field j "succ")
  let V ← listOf getInt (← field j "V")
  let R ← getNat (← field j "R")
  let loopRounds ← listOf getPairIN (fieldD j "loopRounds" (Json.arr #[]))
  let cnt0L ← listOf getPairIN (fieldD j "cnt0" (Json.arr #[]))
  let script ← listOf getBool (fieldD j "script" (Json.arr #[]))
  let disc ← getStr (fieldD j "disc" (Json.str "heap"))
  let succ := assocFn succL []
  let lim : Int → Nat := fun s =>
    match loopRounds.find? (fun p => p.1 == s) with
    | some p => p.2 + 1                                   -- `counter <= loop_total_rounds[s]`
    | none => R                                           -- `counter < max_analysis_round`
  let cnt0 := assocFn cnt0L 0
  let fuel := script.length + 2
  let (evs, cntF, wsize, w0) ← match disc with
    | "heap" => do
      let prio ← listOf getPairIN (fieldD j "prio" (Json.arr #[]))
      let heap ← listOf getPairNI (← field j "init")
      let w : HeapWL := { heap := heap, prio := prio }
      let (e, c, wf) := visitLife heapDiscipline succ V lim fuel w cnt0 script []
      pure (e, c, wf.heap.length, heap.length)
    | "heapq" => do
      let prio ← listOf getPairIN (fieldD j "prio" (Json.arr #[]))
      let heap ← listOf getPairNI (← field j "init")
      let w : HeapWL := { heap := heap, prio := prio }
      let (e, c, wf) := visitLife heapqDiscipline succ V lim fuel w cnt0 script []
      pure (e, c, wf.heap.length, heap.length)
    | "fifo" => do
      let init ← listOf getInt (← field j "init")
      let (e, c, wf) := visitLife fifoDiscipline succ V lim fuel init cnt0 script []
      pure (e, c, wf.length, init.length)
    | d => throw s!"unknown discipline {d}"
  let intrStmts := evs.filterMap (fun e => match e with | .intr s => some s | _ => none)
  pure (Json.mkObj [
    ("events", jList jEv evs),
    ("steps", jNat evs.length),
    ("left", jNat wsize),
    ("bound", jNat (stmtsBound succ V lim cnt0 w0 + intrAllowance succ intrStmts)),
    ("bound_no_intr", jNat (stmtsBound succ V lim cnt0 w0)),
    ("edges", jNat (edgeCount succ V)),
    ("final_cnt", jList (fun v => Json.arr #[jInt v, jNat (cntF v)]) V)])

/-- worklist probe: a script of `["push", x]` / `["pop"]` operations replayed under a discipline;
returns the list content (items with priorities) after every operation -/
def handleWlProbe (j : Json) : Except String Json := do
  let prio ← listOf getPairIN (← field j "prio")
  let disc ← getStr (← field j "disc")
  let ops ← getArr (← field j "ops")
  let D ← match disc with
    | "heap" => pure heapDiscipline
    | "heapq" => pure heapqDiscipline
    | d => throw s!"unknown discipline {d}"
  let mut w : HeapWL := { heap := [], prio := prio }
  let mut outs : Array Json := #[]
  for op in ops do
    let a ← getArr op
    match ← getStr a[0]! with
    | "push" => w := D.push w (← getInt a[1]!)
    | "pop" => w := if D.size w = 0 then w else D.pop w
    | k => throw s!"unknown op {k}"
    outs := outs.push (jList (fun p => Json.arr #[jNat p.1, jInt p.2]) w.heap)
  pure (Json.arr outs)

/-! frames -/

def getSite (j : Json) : Except String Site := do
  let a ← getArr j
  if a.size != 3 then throw "site must have 3 ints"
  pure (← getInt a[0]!, ← getInt a[1]!, ← getInt a[2]!)

def jSite (s : Site) : Json := Json.arr #[jInt s.1, jInt s.2.1, jInt s.2.2]

def jDEv : DEv → Json
  | .initFail m => Json.arr #[Json.str "initFail", jInt m]
  | .init m p => Json.arr #[Json.str "init", jInt m, jList jSite p]
  | .push s => Json.arr #[Json.str "push", jSite s]
  | .intr m s ks c => Json.arr #[Json.str "intr", jInt m, jInt s, jList jInt ks, jNat c]
  | .done m c => Json.arr #[Json.str "done", jInt m, jNat c]

def getReq (j : Json) : Except String (Int × List Int) := getPairIL j

structure EntryIn where
  entry : Int
  script : List (List (Int × List Int))      -- per invocation of analyze_stmts: its raw requests

def getEntry (j : Json) : Except String EntryIn := do
  pure { entry := ← getInt (← field j "entry"),
         script := ← listOf (listOf getReq) (← field j "script") }

def runEntries (U : List Site) (B : Nat) (nobody : List Int) :
    List EntryIn → PathStore.Store Site → List Json → List Json × PathStore.Store Site
  | [], ps, acc => (acc.reverse, ps)
  | e :: es, ps, acc =>
    let oracle : Glob → Frame Unit → Nat → List (Int × List Int) := fun _ _ t => e.script.getD t []
    let R := scriptRunner U B oracle
    let G0 : Glob := { cnt := fun _ => 0, paths := ps }
    let (evs, G) := driver R (fun _ f _ => !nobody.contains f.method) (fun _ => ()) [entryFrame (fun _ => ()) e.entry] G0 0
    let out := Json.mkObj [
      ("entry", jInt e.entry),
      ("events", jList jDEv evs),
      ("steps", jNat evs.length),
      ("frames", jNat (framesCreated evs)),
      ("interruptions", jNat (interruptions evs)),
      ("max_path", jNat (maxPathLen evs)),
      ("requests", jNat (innerCost evs)),
      ("counters", jList (fun u => Json.arr #[jSite u, jNat (G.cnt u)]) U),
      ("paths", jList (jList jSite) G.paths.terms)]
    runEntries U B nobody es G.paths (out :: acc)

def handleFrames (j : Json) : Except String Json := do
  let U ← listOf getSite (← field j "U")
  let B ← getNat (← field j "B")
  let nobody ← listOf getInt (fieldD j "nobody" (Json.arr #[]))
  let entries ← listOf getEntry (← field j "entries")
  let (outs, _) := runEntries U B nobody entries PathStore.Store.empty []
  pure (Json.mkObj [
    ("entries", Json.arr outs.toArray),
    ("frames_bound", jNat (framesBound B U.length)),
    ("intr_bound", jNat (intrBound B U.length)),
    ("driver_bound", jNat (driverBound B U.length))])

/-! bottom-up driver (analyze_method) -/

def jPEv : PEv → Json
  | .initFail m => Json.arr #[Json.str "initFail", jInt m]
  | .init m => Json.arr #[Json.str "init", jInt m]
  | .push m => Json.arr #[Json.str "push", jInt m]
  | .intr m s ks => Json.arr #[Json.str "intr", jInt m, jInt s, jList jInt ks]
  | .done m => Json.arr #[Json.str "done", jInt m]

/-- request: {"M": [...], "root": m, "analyzed": [...], "nobody": [...], "script": [[[stmt,[callees]],…],…]} -/
def handlePrelim (j : Json) : Except String Json := do
  let M ← listOf getInt (← field j "M")
  let root ← getInt (← field j "root")
  let analyzed ← listOf getInt (fieldD j "analyzed" (Json.arr #[]))
  let nobody ← listOf getInt (fieldD j "nobody" (Json.arr #[]))
  let script ← listOf (listOf getReq) (← field j "script")
  let (evs, fin) := prelimDriver M
    (fun _ st _ => match st with | f :: _ => !nobody.contains f.method | [] => true)
    (fun _ _ t => script.getD t [])
    [{ method := root, inited := false }] analyzed 0
  pure (Json.mkObj [
    ("events", jList jPEv evs),
    ("interruptions", jNat (pInterruptions evs)),
    ("frames", jNat (pFrames evs)),
    ("bound", jNat M.length),
    ("analyzed", jList jInt fin)])

/-! taint -/

def getAct (j : Json) : Except String Act := do
  let a ← getArr j
  if a.size == 0 then throw "empty act"
  match ← getStr a[0]! with
  | "g" =>
    if a.size != 4 then throw "grow act: [g, v, slot, force]"
    pure (.grow (← getNat a[1]!) (← getNat a[2]!) (← getBool a[3]!))
  | "a" =>
    if a.size != 2 then throw "always act: [a, v]"
    pure (.always (← getNat a[1]!))
  | k => throw s!"unknown act {k}"

def getPairNL (j : Json) : Except String (Nat × List Nat) := do
  let a ← getArr j
  if a.size != 2 then throw "expected [nat, [nats]]"
  pure (← getNat a[0]!, ← listOf getNat a[1]!)

def handleTaint (j : Json) : Except String Json := do
  let n ← getNat (← field j "n")
  let slots ← listOf getNat (← field j "slots")
  let bits ← listOf getNat (← field j "bits")
  let srcL ← listOf (listOf getNat) (← field j "src")
  let actsL ← listOf (listOf getAct) (← field j "acts")
  let tags0 ← listOf getPairNL (fieldD j "tags" (Json.arr #[]))
  let q0 ← listOf getNat (← field j "queue")
  let srcA := srcL.toArray
  let actsA := actsL.toArray
  let T : TGraph := { n := n, slots := slots, bits := bits,
                      src := fun u => srcA.getD u [], acts := fun u => actsA.getD u [] }
  let tags : Nat → List Nat := fun s =>
    match tags0.find? (fun p => p.1 == s) with
    | some p => p.2
    | none => []
  let st0 : TState := { tags := tags, queue := q0, processed := [] }
  if !queueOk T q0 then throw "initial queue holds a non-node"
  let (deq, stF) := taintLoop T st0
  pure (Json.mkObj [
    ("dequeued", jList jNat deq),
    ("steps", jNat deq.length),
    ("rank0", jNat (trank T st0)),
    ("wmax", jNat (wmax T)),
    ("bound", jNat (taintBound slots.length bits.length n q0.length (wmax T))),
    ("tags", jList (fun s => Json.arr #[jNat s, jList jNat (stF.tags s)]) slots)])

/-! closure -/

def handleClosure (j : Json) : Except String Json := do
  let nextL ← listOf getPairIL (← field j "next")
  let N ← listOf getInt (← field j "N")
  let init ← listOf getInt (← field j "init")
  let disc ← getStr (fieldD j "disc" (Json.str "fifo"))
  let next := assocFn nextL []
  let w0 := match disc with
    | "bag" => init
    | "lifo" => init
    | _ => init.foldl fifoDiscipline.push []
  let out := match disc with
    | "bag" => closureLoop bagDiscipline next N w0 []
    | "lifo" => closureLoop lifoDiscipline next N w0 []
    | _ => closureLoop fifoDiscipline next N w0 []
  pure (Json.mkObj [
    ("pops", jList jInt out.pops),
    ("steps", jNat out.pops.length),
    ("visited", jList jInt out.visited.reverse),
    ("bound", jNat (closureBound w0.length (sumOver (fun v => (next v).length) N)))])

def handleScopes (j : Json) : Except String Json := do
  let avail ← listOf getPairIL (← field j "avail")
  let (pops, fin) := scopeClosure avail
  pure (Json.mkObj [
    ("ok", Json.bool (scopeTableOk avail)),
    ("pops", jList (jList jInt) pops),
    ("steps", jNat (pops.map List.length).sum),
    ("final", jList (fun p => Json.arr #[jInt p.1, jList jInt p.2]) fin)])

def handleBounds (j : Json) : Except String Json := do
  let g (k : String) : Except String Nat := getNat (fieldD j k (jNat 0))
  let R ← g "R"; let B ← g "B"; let nU ← g "nU"; let nV ← g "nV"; let nE ← g "nE"
  let dmax ← g "dmax"; let nM ← g "nM"
  pure (Json.mkObj [
    ("stmts_uniform", jNat (stmtsBoundUniform R nV nE)),
    ("frames", jNat (framesBound B nU)),
    ("interruptions", jNat (intrBound B nU)),
    ("driver", jNat (driverBound B nU)),
    ("path_len", jNat (pathLenBound nM)),
    ("entry", jNat (entryBound R B nU nV nE dmax)),
    ("total", jNat (totalBound (← g "nEntry") R B nU nV nE dmax (← g "nSrc") (← g "nSnk")
        (← g "nSlots") (← g "nBits") (← g "nNodes") (← g "amax") (← g "nClo") (← g "cW") (← g "cE")))])

def handle (j : Json) : Except String Json := do
  match ← getStr (← field j "op") with
  | "visit" => handleVisit j
  | "wlprobe" => handleWlProbe j
  | "frames" => handleFrames j
  | "prelim" => handlePrelim j
  | "taint" => handleTaint j
  | "closure" => handleClosure j
  | "scopes" => handleScopes j
  | "bounds" => handleBounds j
  | op => throw s!"unknown op {op}"

end LianVerif.Drv.Termination
