/- model "wfcheck": the certified checker `wfCheck` evaluated on rows (normally the REAL rows read
from frontend/gir.bundle*). -/
import LianVerif.Drv.GirJson
import LianVerif.Drv.Flatten
import LianVerif.Gir.WellFormed
import LianVerif.Model.Consumers

namespace LianVerif.Drv.WfCheck
open Lean LianVerif.Drv LianVerif.Drv.GirJson LianVerif.Gir

def viewErrName : LianVerif.Consumers.ViewErr → String
  | .duplicate => "err:duplicate"
  | .endWithoutStart => "err:end_without_start"
  | .mismatch => "err:mismatch"
  | .unclosed => "err:unclosed"

/-- request {"units": [[row, …], …], "params": {…}}
    reply   {"wf": bool, "units": [[failed clause, …], …], "ranges": bool}
    request {"op": "consumers", "rows": [row, …], "blocks": [id, …]}
    reply   {"viewer": "ok" | "err:…", "read_block": [bool, …]}   (models of GIRBlockViewer / read_block) -/
def handle (j : Json) : Except String Json := do
  let op ← getStr (fieldD j "op" (Json.str "check"))
  if op == "consumers" then
    let rows ← listOf getRow (← field j "rows")
    let blocks ← listOf getNat (← field j "blocks")
    let v := match LianVerif.Consumers.viewer rows with
      | .ok _ => "ok"
      | .error e => viewErrName e
    pure (Json.mkObj [("viewer", Json.str v),
                      ("read_block", jList (fun b => Json.bool (LianVerif.Consumers.readBlock rows b)) blocks)])
  else
    let (_, W) ← LianVerif.Drv.Flatten.getParams j
    let units ← listOf (listOf getRow) (← field j "units")
    pure (Json.mkObj [("wf", Json.bool (wfCheck W units)),
                      ("units", jList (fun u => jList Json.str (unitFailures W u)) units),
                      ("ranges", Json.bool (chkRangesFrom units))])

end LianVerif.Drv.WfCheck
