/- model "wfcheck": the certified checker `wfCheck` evaluated on rows (normally the REAL rows read
from frontend/gir.bundle*). -/
import LianVerif.Drv.GirJson
import LianVerif.Drv.Flatten
import LianVerif.Gir.WellFormed

namespace LianVerif.Drv.WfCheck
open Lean LianVerif.Drv LianVerif.Drv.GirJson LianVerif.Gir

/-- request {"units": [[row, …], …], "params": {…}}
    reply   {"wf": bool, "units": [[failed clause, …], …], "ranges": bool} -/
def handle (j : Json) : Except String Json := do
  let (_, W) ← LianVerif.Drv.Flatten.getParams j
  let units ← listOf (listOf getRow) (← field j "units")
  pure (Json.mkObj [("wf", Json.bool (wfCheck W units)),
                    ("units", jList (fun u => jList Json.str (unitFailures W u)) units),
                    ("ranges", Json.bool (chkRangesFrom units))])

end LianVerif.Drv.WfCheck
