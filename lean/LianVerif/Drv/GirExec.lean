/-
Drv/GirExec.lean — driver model "girexec": decode a structured GIR program (JSON) into
`Gir.Stmt`, run `Gir.runEntry` for each argument vector, reply with outputs + result.
Trusted glue (decoding only); the semantics is `LianVerif/Gir/Sem.lean`.

Statement JSON = the GIR row as an object: {"op": <operation>, <attribute>: <token | [stmts] | [tokens]>…}
(attribute names exactly as in the GIR table; bodies are arrays of statement objects;
`positional_args` is an array of tokens; `named_args` an array of [name, token] pairs;
`attrs` an array of strings).  Absent / null attribute = not present in the row.
-/
import LianVerif.Drv.Util
import LianVerif.Gir.Sem

namespace LianVerif.Drv.GirExec
open Lean LianVerif.Drv LianVerif.Gir

def optStr (j : Json) (k : String) : Option String :=
  match j.getObjVal? k with
  | .ok (.str s) => some s
  | _ => none

def strD (j : Json) (k : String) : String := (optStr j k).getD ""

def tok (j : Json) (k : String) : Opd := Opd.ofToken (strD j k)

/-- optional operand: absent, null and the empty token all mean "not given". -/
def optTok (j : Json) (k : String) : Option Opd :=
  match optStr j k with
  | some "" => none
  | some s => some (Opd.ofToken s)
  | none => none

def strList (j : Json) (k : String) : Except String (List String) :=
  match j.getObjVal? k with
  | .ok (.arr a) => a.toList.mapM getStr
  | .ok .null => pure []
  | .ok v => throw s!"attribute {k}: expected array of strings, got {v.compress}"
  | .error _ => pure []

def namedList (j : Json) (k : String) : Except String (List (String × Opd)) :=
  match j.getObjVal? k with
  | .ok (.arr a) => a.toList.mapM (fun p => do
      let pa ← getArr p
      if pa.size != 2 then throw "named arg must be [name, token]"
      pure (← getStr pa[0]!, Opd.ofToken (← getStr pa[1]!)))
  | .ok .null => pure []
  | .ok v => throw s!"attribute {k}: expected array of pairs, got {v.compress}"
  | .error _ => pure []

def hasVal (j : Json) (k : String) : Bool :=
  match j.getObjVal? k with
  | .ok .null => false
  | .ok (.str "") => false
  | .ok _ => true
  | .error _ => false

def getParam (j : Json) : Except String Param := do
  let op ← getStr (← field j "op")
  if op != "parameter_decl" then throw s!"expected parameter_decl, got {op}"
  let attrs ← strList j "attrs"
  pure { name := strD j "name", dflt := optTok j "default_value",
         kwOnly := attrs.contains "%keyword_pmt",
         packedPos := attrs.contains "%packed_pos_pmt",
         packedNamed := attrs.contains "%packed_named_pmt" }

/-- names of the `method_decl`s of a class body whose `attrs` contain `static`. -/
def staticNames (j : Json) : Except String (List String) :=
  match j.getObjVal? "methods" with
  | .ok (.arr a) => do
    let r ← a.toList.mapM (fun m => do
      let attrs ← strList m "attrs"
      if optStr m "op" == some "method_decl" && attrs.contains "static" then pure [strD m "name"] else pure [])
    pure r.flatten
  | _ => pure []

mutual
partial def getBody (j : Json) (k : String) : Except String (List Stmt) :=
  match j.getObjVal? k with
  | .ok (.arr a) => a.toList.mapM getStmt
  | .ok .null => pure []
  | .ok v => throw s!"attribute {k}: expected array of statements, got {v.compress}"
  | .error _ => pure []

partial def getStmt (j : Json) : Except String Stmt := do
  let op ← getStr (← field j "op")
  match op with
  | "assign_stmt" =>
    pure (.assign (strD j "target") (strD j "operator") (tok j "operand") (optTok j "operand2"))
  | "call_stmt" =>
    if hasVal j "packed_positional_args" || hasVal j "packed_named_args" then pure (.unsupported "packed-arguments")
    else pure (.call (strD j "target") (tok j "name") ((← strList j "positional_args").map Opd.ofToken) (← namedList j "named_args"))
  | "object_call_stmt" =>
    if hasVal j "packed_positional_args" || hasVal j "packed_named_args" then pure (.unsupported "packed-arguments")
    else pure (.objCall (strD j "target") (tok j "receiver_object") (strD j "field")
                ((← strList j "positional_args").map Opd.ofToken) (← namedList j "named_args"))
  | "return_stmt" => pure (.ret (tok j "name"))
  | "if_stmt" => pure (.ifS (tok j "condition") (← getBody j "then_body") (← getBody j "else_body"))
  | "while_stmt" =>
    pure (.loop (tok j "condition") (← getBody j "condition_prebody") (← getBody j "body") [] (← getBody j "else_body"))
  | "for_stmt" =>
    pure (.block ((← getBody j "init_body") ++
      [.loop (tok j "condition") (← getBody j "condition_prebody") (← getBody j "body") (← getBody j "update_body") []]))
  | "forin_stmt" => pure (.forin (strD j "name") (tok j "receiver") (← getBody j "body"))
  | "block" => pure (.block (← getBody j "body"))
  | "break_stmt" => pure .brk
  | "continue_stmt" => pure .cont
  | "pass_stmt" => pure .pass
  | "import_stmt" => pure .pass
  | "from_import_stmt" => pure .pass
  | "variable_decl" => pure (.varDecl (strD j "name"))
  | "global_stmt" => pure (.globalS (strD j "name"))
  | "nonlocal_stmt" => pure (.nonlocalS (strD j "name"))
  | "method_decl" =>
    let ps ← match j.getObjVal? "parameters" with
      | .ok (.arr a) => a.toList.mapM getParam
      | _ => pure []
    pure (.methodDecl (strD j "name") ps (← getBody j "body"))
  | "class_decl" =>
    if !(← getBody j "nested").isEmpty then pure (.unsupported "nested-class")
    else
      let statics ← staticNames j
      let supers := (← strList j "supers").map Opd.ofToken
      if statics.isEmpty then pure (.classDecl (strD j "name") supers (← getBody j "methods"))
      else pure (classWithStatics (strD j "name") supers (← getBody j "methods") statics)
  | "new_object" =>
    if hasVal j "packed_positional_args" || hasVal j "packed_named_args" || hasVal j "named_args" then
      pure (.unsupported "new_object-arguments")
    else pure (.newObject (strD j "target") (optTok j "data_type") ((← strList j "positional_args").map Opd.ofToken))
  | "expression_stmt" => pure .pass
  | "package_stmt" => pure .pass
  | "new_array" => pure (.newArray (strD j "target") ((← strList j "attrs").contains "tuple"))
  | "array_write" => pure (.arrayWrite (tok j "array") (tok j "index") (tok j "source"))
  | "array_read" => pure (.arrayRead (strD j "target") (tok j "array") (tok j "index"))
  | "array_append" => pure (.arrayAppend (tok j "array") (tok j "source"))
  | "array_extend" => pure (.arrayExtend (tok j "array") (tok j "source"))
  | "new_record" => pure (.newRecord (strD j "target"))
  | "record_write" => pure (.recordWrite (tok j "receiver_record") (tok j "key") (tok j "value"))
  | "record_extend" => pure (.recordExtend (tok j "record") (tok j "source"))
  | "field_read" => pure (.fieldRead (strD j "target") (tok j "receiver_object") (strD j "field"))
  | "field_write" => pure (.fieldWrite (tok j "receiver_object") (strD j "field") (tok j "source"))
  | "slice_read" =>
    pure (.sliceRead (strD j "target") (tok j "array") (optTok j "start") (optTok j "end") (optTok j "step"))
  | "slice_write" =>
    pure (.sliceWrite (tok j "array") (tok j "source") (optTok j "start") (optTok j "end") (optTok j "step"))
  | other => pure (.unsupported other)
end

def getVal (j : Json) : Except String Val :=
  match j with
  | .null => pure .none
  | .bool b => pure (.bool b)
  | .str s => pure (.str s)
  | .num _ => do pure (.int (← getInt j))
  | _ => throw s!"argument must be null/bool/int/string, got {j.compress}"

def jObs (o : Obs) : Json :=
  Json.mkObj [("out", jList Json.str o.out), ("result", Json.str o.result)]

/-- request: {"prog": [stmt…], "entry": name, "argvs": [[value…]…], "fuel": n?} → [ {out, result} per argv ] -/
def handle (j : Json) : Except String Json := do
  let prog ← (← getArr (← field j "prog")).toList.mapM getStmt
  let entry ← getStr (fieldD j "entry" (Json.str ""))
  let fuel ← getNat (fieldD j "fuel" (jNat 20000))
  let argvs ← listOf (listOf getVal) (fieldD j "argvs" (Json.arr #[Json.arr #[]]))
  -- `fuel` is the statement budget; the recursion depth never exceeds budget + 2
  pure (jList (fun args => jObs (runEntry (fuel + 2) prog entry args (some fuel))) argvs)

end LianVerif.Drv.GirExec
