import LianVerif.Drv.Util
import LianVerif.Model.Frames
import LianVerif.Spec.FramesWitness

namespace LianVerif.Drv.Frames
open Lean LianVerif.Drv LianVerif.Frames LianVerif.PathStore

def getInv (j : Json) : Except String Inv := do
  let a ← getArr j
  if a.size != 2 then throw "invocation must be [stmt, [callees]]"
  pure { stmt := ← getNat a[0]!, callees := ← listOf getNat a[1]! }

structure FrameRec where
  method : Nat
  ok : Bool
  script : List Inv

def getFrameRec (j : Json) : Except String FrameRec := do
  pure { method := ← getNat (← field j "method"), ok := ← getBool (← field j "ok"),
         script := ← listOf getInv (← field j "script") }

/-- The harvested oracle: frame `n` behaves as recorded.  A frame the real run did not have, or a
frame whose method differs from the recorded one, gets a script that cannot occur in a real run
(statement 0 calling method 0), so that the divergence shows in the compared event list instead of
being papered over. -/
def mkOracle (frames : Array FrameRec) : Oracle := fun serial method =>
  match frames[serial]? with
  | some r => if r.method = method then { inits := r.ok, script := r.script }
              else { inits := true, script := [{ stmt := 0, callees := [0] }] }
  | none => { inits := true, script := [{ stmt := 0, callees := [0] }] }

def jSite (s : Site) : Json := Json.arr #[jNat s.1, jNat s.2.1, jNat s.2.2]

def jEvent : Event → Json
  | .create n s => Json.arr #[Json.str "create", jNat n, jSite s]
  | .init n m p ok => Json.arr #[Json.str "init", jNat n, jNat m, jList jSite p, Json.bool ok]
  | .cts n m st cs d rs => Json.arr #[Json.str "cts", jNat n, jNat m, jNat st, jList jNat cs, jList jNat d, jList jNat rs]
  | .pop n => Json.arr #[Json.str "pop", jNat n]

def jCounter (c : Counter) : Json :=
  jList (fun (kv : Site × Nat) => Json.arr #[jNat kv.1.1, jNat kv.1.2.1, jNat kv.1.2.2, jNat kv.2]) c

/-- request {"op":"run","max":2,"fuel":N,"entries":[…],"frames":[{"method":…,"ok":…,"script":[[stmt,[callees]],…]},…]}
    reply   {"entries":[{"events":[…only this entry's…],"counter":[…],"paths":[…],"stuck":bool}], "created":n}
    request {"op":"cycles","path":[[a,b,c],…]} → countCycles -/
def handle (j : Json) : Except String Json := do
  let op ← getStr (fieldD j "op" (Json.str "run"))
  match op with
  | "cycles" =>
    let p ← listOf (fun x => do
      let a ← getArr x
      if a.size != 3 then throw "site must have 3 nats"
      pure ((← getNat a[0]!, ← getNat a[1]!, ← getNat a[2]!) : Site)) (← field j "path")
    pure (jNat (countCycles p))
  | "run" =>
    let max ← getNat (← field j "max")
    let fuel ← getNat (← field j "fuel")
    let entries ← listOf getNat (← field j "entries")
    let frames ← listOf getFrameRec (← field j "frames")
    let oracle := mkOracle frames.toArray
    let sts := runEntries max oracle fuel entries Store.empty 0 []
    -- events are cumulative in the model; cut them per entry
    let rec cut (prev : Nat) : List St → List Json
      | [] => []
      | s :: rest =>
        Json.mkObj [("events", jList jEvent (s.log.drop prev)),
                    ("counter", jCounter s.counter),
                    ("paths", jList (jList jSite) s.store.terms),
                    ("stuck", Json.bool (!s.stack.isEmpty))] :: cut s.log.length rest
    let created := match sts.getLast? with | some s => s.created | none => 0
    pure (Json.mkObj [("entries", Json.arr (cut 0 sts).toArray), ("created", jNat created)])
  | "witness" =>
    let name ← getStr (← field j "name")
    let tab ← match name with
      | "budget" => pure budgetTable
      | "selfrec" => pure selfrecTable
      | _ => throw s!"unknown witness {name}"
    pure (jList (fun (r : Nat × List Inv) =>
      Json.arr #[jNat r.1, jList (fun (i : Inv) => Json.arr #[jNat i.stmt, jList jNat i.callees]) r.2]) tab)
  | _ => throw s!"unknown op {op}"

end LianVerif.Drv.Frames
