import LianVerif.Drv.Util
import LianVerif.Model.Scope
import LianVerif.Model.Resolver
import LianVerif.Spec.Lexical

/-
Driver handlers for C05.

model "scopes":   GIR rows of one unit  ->  scope space, memo table, visible-scope table,
                  declarations, implicit roots, bindings for the queried occurrences, and the
                  verdicts of the decidable side conditions of the C05 theorems on this unit.
model "resolver": a summary (as read back from the real workspace) -> bindings for the queries.
-/
namespace LianVerif.Drv.Scope
open Lean LianVerif.Drv LianVerif.Scopes LianVerif.Resolver

def optNat (j : Json) : Except String (Option Nat) :=
  match j with
  | .null => pure none
  | _ => do pure (some (← getNat j))

/-- empty / NaN names are `none` (`util.is_available`). -/
def optName (j : Json) : Except String (Option String) :=
  match j with
  | .null => pure none
  | .str s => pure (if s.isEmpty then none else some s)
  | _ => throw s!"expected string or null, got {j.compress}"

/-- row = [op, id, parent, name, alias, fields, methods, nested, parameters, init_body, body] -/
def getRow (j : Json) : Except String (Row String) := do
  let a ← getArr j
  if a.size != 11 then throw "row must have 11 cells"
  pure { op := ← getStr a[0]!, id := ← getNat a[1]!, parent := ← getNat a[2]!,
         name := ← optName a[3]!, alias := ← optName a[4]!, fields := ← optNat a[5]!,
         methods := ← optNat a[6]!, nested := ← optNat a[7]!, parameters := ← optNat a[8]!,
         initBody := ← optNat a[9]!, body := ← optNat a[10]! }

def getOps (j : Json) : Except String OpTable := do
  let l (k : String) : Except String (List String) := do listOf getStr (← field j k)
  pure { importOps := ← l "import", varOps := ← l "var", caseOps := ← l "case", paramOps := ← l "param",
         exportOps := ← l "export", methodOps := ← l "method", forOps := ← l "for", withOps := ← l "with",
         classOps := ← l "class", nsOps := ← l "ns" }

def kindName : SKind → String
  | .unit => "UNIT_KIND" | .package => "PACKAGE_STMT" | .import_ => "IMPORT_STMT"
  | .varDecl => "VARIABLE_DECL" | .paramDecl => "PARAMETER_DECL" | .export_ => "EXPORT_STMT"
  | .method => "METHOD_KIND" | .for_ => "FOR_KIND" | .with_ => "WITH_KIND" | .class_ => "CLASS_KIND"
  | .ns => "NAMESPACE_KIND" | .block => "BLOCK_KIND"

def getQuery (j : Json) : Except String (Nat × String × Mode) := do
  let a ← getArr j
  if a.size != 3 then throw "query must be [stmt, name, mode]"
  let m ← getStr a[2]!
  let mode ← match m with
    | "use" => pure Mode.use
    | "global" => pure Mode.global
    | _ => throw s!"unknown mode {m}"
  pure (← getNat a[0]!, ← getStr a[1]!, mode)

def jBound (b : Option (Decl String)) : Json :=
  match b with
  | none => Json.null
  | some d => Json.arr #[jNat d.stmt, Json.bool d.isImport, jInt d.scope]

def insertSortedInt (x : Int) : List Int → List Int
  | [] => [x]
  | y :: ys => if x < y then x :: y :: ys else if x == y then y :: ys else y :: insertSortedInt x ys

def sortInts (l : List Int) : List Int := l.foldl (fun acc x => insertSortedInt x acc) []

/-- effective memo table: first (= latest) entry per key. -/
def effCache (c : Cache) : List (Nat × Nat) :=
  (c.foldl (fun (acc : List (Nat × Nat)) p => if acc.any (fun q => q.1 == p.1) then acc else acc ++ [p]) [])

def handleScopes (j : Json) : Except String Json := do
  let t ← getOps (← field j "ops")
  let rows ← listOf getRow (← field j "rows")
  let queries ← listOf getQuery (fieldD j "queries" (Json.arr #[]))
  let shapes := rows.map Row.shape
  let variant ← getStr (fieldD j "variant" (Json.str "current"))
  let st ← match variant with
    | "current" => pure (scopeTable t shapes)
    | "pinned" => pure (scopeTable0 t shapes)
    | v => throw s!"unknown variant {v}"
  let ok := (closure (availInit st.recs)).2
  let ds := decls lastSegStr rows st.recs
  let S : Summary String := summaryOf ds st.recs
  let avail := S.avail
  let binds := queries.map (fun (q : Nat × String × Mode) => bind S (stmtScope st) q.1 q.2.1 q.2.2)
  let lex := queries.map (fun (q : Nat × String × Mode) =>
    match q.2.2 with
    | .use => LianVerif.Lexical.lexBind st.recs ds (stmtScope st q.1) q.1 q.2.1
    | .global => resolveGlobal S q.2.1)
  pure (Json.mkObj [
    ("recs", jList (fun (r : ScopeRec) => Json.arr #[jNat r.stmt, jInt r.scope, jInt r.parent, Json.str (kindName r.kind)]) st.recs),
    ("cache", jList (fun (p : Nat × Nat) => Json.arr #[jNat p.1, jNat p.2]) (effCache st.cache)),
    ("avail", jList (fun (p : Nat × List Int) => Json.arr #[jNat p.1, jList jInt (sortInts p.2)]) avail),
    ("closure_ok", Json.bool ok),
    ("decls", jList (fun (d : Decl String) => Json.arr #[Json.str d.name, jInt d.scope, jNat d.stmt, Json.bool d.isImport]) ds),
    ("implicit", jList jInt S.implicit),
    ("bind", jList jBound binds),
    ("lex", jList jBound lex),
    ("ops_default", Json.bool (t.same defaultOps)),
    ("id_order", Json.bool (LianVerif.Lexical.idOrder st.recs)),
    ("avail_ok", Json.bool (LianVerif.Lexical.availOk st.recs avail))
  ])

def getDecl (j : Json) : Except String (Decl String) := do
  let a ← getArr j
  if a.size != 4 then throw "decl must be [name, scope, stmt, isImport]"
  pure { name := ← getStr a[0]!, scope := ← getInt a[1]!, stmt := ← getNat a[2]!, isImport := ← getBool a[3]! }

def getAvailEntry (j : Json) : Except String (Nat × List Int) := do
  let a ← getArr j
  if a.size != 2 then throw "avail entry must be [scope, ids]"
  pure (← getNat a[0]!, ← listOf getInt a[1]!)

def getPair (j : Json) : Except String (Nat × Int) := do
  let a ← getArr j
  if a.size != 2 then throw "pair must be [stmt, scope]"
  pure (← getNat a[0]!, ← getInt a[1]!)

def handleResolver (j : Json) : Except String Json := do
  let ds ← listOf getDecl (← field j "decls")
  let avail ← listOf getAvailEntry (← field j "avail")
  let implicit ← listOf getInt (← field j "implicit")
  let ss ← listOf getPair (← field j "stmt_scope")
  let queries ← listOf getQuery (← field j "queries")
  let S : Summary String := { decls := ds, avail := avail, implicit := implicit }
  let stmtScope (s : Nat) : Int := match ss.find? (fun p => p.1 == s) with
    | some p => p.2
    | none => -1
  let binds := queries.map (fun (q : Nat × String × Mode) => bind S stmtScope q.1 q.2.1 q.2.2)
  pure (Json.mkObj [("bind", jList jBound binds)])

end LianVerif.Drv.Scope
