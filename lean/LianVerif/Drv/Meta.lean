/- Driver handler for model "meta" (C12): applies an edit's id / name / line maps to the REAL GIR rows
of the base program and compares with the REAL rows of the edited program; re-evaluates the
scope / resolver model on both sides of the equivariance theorems.  Trusted glue: JSON ↔ `MRow`. -/
import LianVerif.Drv.Util
import LianVerif.Drv.Scope
import LianVerif.Model.Meta

namespace LianVerif.Drv.Meta
open Lean LianVerif.Drv LianVerif.Meta LianVerif.Scopes LianVerif.Resolver

def getLoc (j : Json) : Except String (Option Loc) :=
  match j with
  | .null => pure none
  | _ => do
    let a ← getArr j
    if a.size != 4 then throw "loc must be [start_row, start_col, end_row, end_col]"
    pure (some { startRow := ← getNat a[0]!, startCol := ← getNat a[1]!, endRow := ← getNat a[2]!, endCol := ← getNat a[3]! })

def getKV {β} (f : Json → Except String β) (j : Json) : Except String (String × β) := do
  let a ← getArr j
  if a.size != 2 then throw "attribute must be [key, value]"
  pure (← getStr a[0]!, ← f a[1]!)

/-- row = [op, id, parent, loc|null, rowAttrs, refs, names, other] -/
def getRow (j : Json) : Except String MRow := do
  let a ← getArr j
  if a.size != 8 then throw "row must have 8 cells"
  pure { op := ← getStr a[0]!, id := ← getNat a[1]!, parent := ← getNat a[2]!, loc := ← getLoc a[3]!,
         rowAttrs := ← listOf (getKV getNat) a[4]!,
         refs := ← listOf (getKV getNat) a[5]!, names := ← listOf (getKV (listOf getStr)) a[6]!,
         other := ← listOf (getKV getStr) a[7]! }

def getPairN (j : Json) : Except String (Nat × Nat) := do
  let a ← getArr j
  if a.size != 2 then throw "pair must be [a, b]"
  pure (← getNat a[0]!, ← getNat a[1]!)

def getPairS (j : Json) : Except String (String × String) := do
  let a ← getArr j
  if a.size != 2 then throw "pair must be [a, b]"
  pure (← getStr a[0]!, ← getStr a[1]!)

def getPiece (j : Json) : Except String (Nat × Nat × Nat) := do
  let a ← getArr j
  if a.size != 3 then throw "piece must be [from, to, target]"
  pure (← getNat a[0]!, ← getNat a[1]!, ← getNat a[2]!)

def insertSortedP (x : Nat × Nat) : List (Nat × Nat) → List (Nat × Nat)
  | [] => [x]
  | y :: ys => if x.1 < y.1 then x :: y :: ys else y :: insertSortedP x ys

def jOptNat : Option Nat → Json
  | none => Json.null
  | some n => jNat n

def handle (j : Json) : Except String Json := do
  let base ← listOf getRow (← field j "base")
  let edited ← listOf getRow (← field j "edited")
  let ids ← listOf getPairN (fieldD j "ids" (Json.arr #[]))
  let names ← listOf getPairS (fieldD j "names" (Json.arr #[]))
  let pieces ← listOf getPiece (fieldD j "lines" (Json.arr #[]))
  let drop ← listOf getNat (fieldD j "drop" (Json.arr #[]))
  let dropCols ← getBool (fieldD j "drop_cols" (Json.bool false))
  let σOn : Nat → Bool ← match j.getObjVal? "rename_rows" with
    | .ok (.arr a) => do
      let l ← a.toList.mapM getNat
      pure (fun i => l.contains i)
    | _ => pure (fun _ => true)
  let e : Edit := { ρ := lookupD ids, σ := lookupS names, σOn := σOn, rowMap := pieceMap pieces, dropCols := dropCols }
  let dropE ← getBool (fieldD j "drop_end" (Json.bool false))
  let want := dropEnds dropE (editRows e base)
  let got := dropEnds dropE (surviving drop dropCols edited)
  let fd := firstDiff want got 0
  let sorted := ids.foldl (fun acc p => insertSortedP p acc) []
  -- the equivariance theorems, evaluated on this instance
  let queries ← listOf LianVerif.Drv.Scope.getQuery (fieldD j "queries" (Json.arr #[]))
  let bindOk : Option Nat ← match j.getObjVal? "ops" with
    | .error _ => pure none
    | .ok ops => do
      let t ← LianVerif.Drv.Scope.getOps ops
      let rb := base.map toScopeRow
      let re := got.map toScopeRow
      let bad := (queries.zipIdx).find? (fun (q : (Nat × String × Mode) × Nat) =>
        let b := bindRows lastSegStr t rb q.1.1 q.1.2.1 q.1.2.2
        let n' := if e.σOn q.1.1 then e.σ q.1.2.1 else q.1.2.1
        let b' := bindRows lastSegStr t re (e.ρ q.1.1) n' q.1.2.2
        !(b' == b.map (fun d => mapDecl e.ρ (if e.σOn d.stmt then Decl.map e.σ d else d))))
      pure (bad.map (·.2))
  pure (Json.mkObj [
    ("equal", Json.bool fd.isNone),
    ("first", jOptNat fd),
    ("want", match fd with
      | some i => (match want[i]? with | some r => Json.str (reprStr r) | none => Json.null)
      | none => Json.null),
    ("got", match fd with
      | some i => (match got[i]? with | some r => Json.str (reprStr r) | none => Json.null)
      | none => Json.null),
    ("mono", Json.bool (strictMonoOn sorted)),
    ("inj", Json.bool (injectiveOn ids)),
    ("n_base", jNat base.length), ("n_edited", jNat edited.length), ("n_surviving", jNat got.length),
    ("bind_checked", jNat queries.length),
    ("bind_bad", jOptNat bindOk)])

end LianVerif.Drv.Meta
