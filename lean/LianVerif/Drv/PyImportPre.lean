/- Driver handler for model "pyimportpre" (C12).  Trusted glue: JSON strings ↔ `List Char`. -/
import LianVerif.Drv.Util
import LianVerif.Model.PyImportPre

namespace LianVerif.Drv.PyImportPre
open Lean LianVerif.Drv LianVerif.PyImportPre

def getSpan (j : Json) : Except String (Nat × Nat) := do
  let a ← getArr j
  if a.size != 2 then throw "span must be [start, end]"
  pure (← getNat a[0]!, ← getNat a[1]!)

/-- {"m":"pyimportpre","variant":"current"|"pinned","lines":[…],"spans":[[[a,b]…]…]} → {"lines":[…]} -/
def handle (j : Json) : Except String Json := do
  let lines ← listOf getStr (← field j "lines")
  let variant ← getStr (fieldD j "variant" (Json.str "current"))
  let ls := lines.map String.toList
  let out ← match variant with
    | "current" => do
      let spans ← listOf (listOf getSpan) (fieldD j "spans" (Json.arr #[]))
      pure (preprocess spans ls)
    | "pinned" => pure (preprocess0 ls)
    | v => throw s!"unknown variant {v}"
  pure (Json.mkObj [("lines", jList (fun (l : Line) => Json.str (String.ofList l)) out)])

end LianVerif.Drv.PyImportPre
