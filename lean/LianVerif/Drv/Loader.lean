import LianVerif.Drv.Util
import LianVerif.Model.Loader

namespace LianVerif.Drv.Loader
open Lean LianVerif.Drv LianVerif.Loader

def getOp (j : Json) : Except String (Op Int Int) := do
  let a ← getArr j
  if a.size < 1 then throw "empty op"
  let k ← getStr a[0]!
  match k with
  | "save" =>
    if a.size != 3 then throw "save needs key and rows"
    pure (.save (← getInt a[1]!) (← listOf getInt a[2]!))
  | "get" => if a.size != 2 then throw "get needs key" else pure (.get (← getInt a[1]!))
  | "contain" => if a.size != 2 then throw "contain needs key" else pure (.contain (← getInt a[1]!))
  | "remove" => if a.size != 2 then throw "remove needs key" else pure (.removeUnit (← getInt a[1]!))
  | "export" => pure .exp
  | "export_indexing" => pure .exportIndexing
  | "restore" => pure .restore
  | "reopen" => pure .reopen
  | _ => throw s!"unknown op {k}"

def jGot : Got Int → Json
  | .none => Json.arr #[Json.str "none"]
  | .notFound => Json.arr #[Json.str "notfound"]
  | .item l => Json.arr #[Json.str "item", jList jInt l]
  | .quit => Json.arr #[Json.str "quit"]
  | .loadError => Json.arr #[Json.str "loaderror"]

def jOut : Out Int → Json
  | .unit => Json.null
  | .got g => jGot g
  | .bool b => Json.bool b
  | .removed .ok => Json.str "ok"
  | .removed .keyError => Json.str "keyerror"
  | .removed .loadError => Json.str "loaderror"

def jB : Option Nat → Json
  | none => jInt (-1)
  | some n => jNat n

def jIndex (l : List (Int × Option Nat)) : Json := jList (fun p => Json.arr #[jInt p.1, jB p.2]) l

def jCv : CacheVal Int → Json
  | .rows l => jList jInt l
  | .notFound => Json.str "notfound"

def jBundle (b : BFile Int Int) : Json :=
  Json.mkObj [("cols", Json.bool b.cols), ("items", jList (fun p => Json.arr #[jInt p.1, jList jInt p.2]) b.items)]

def jState (s : L Int Int) : Json :=
  Json.mkObj [
    ("ic", jList (fun p => Json.arr #[jInt p.1, jCv p.2]) s.itemCache.items),
    ("bc", jList (fun p => jNat p.1) s.bundleCache.items),
    ("active", jList (fun p => jInt p.1) s.active),
    ("alen", jNat s.activeLen),
    ("index", jIndex s.index),
    ("bcount", jNat s.bundleCount),
    ("disk", jList (fun p => Json.arr #[jNat p.1, match p.2 with | some b => jBundle b | none => Json.null]) s.disk),
    ("dindex", match s.diskIndex with | some l => jIndex l | none => Json.null),
    ("log", jNat s.log.length)]

/-- request: {"variant": "current"|"pinned", "cfg": {"maxRows","itemCap","bundleCap","cachesExported","queryOk","hasSchema","poison":[row,…]},
    "ops": [...], "states": bool}.  A bundle is unwritable when it contains a poison row.
    reply: per op [output, state-after] (state only when "states" is true, else null). -/
def handle (j : Json) : Except String Json := do
  let c ← field j "cfg"
  let poison ← listOf getInt (fieldD c "poison" (Json.arr #[]))
  let cfg : Cfg Int Int := {
    maxRows := ← getNat (← field c "maxRows")
    itemCap := ← getNat (← field c "itemCap")
    bundleCap := ← getNat (← field c "bundleCap")
    cachesExported := ← getBool (fieldD c "cachesExported" (Json.bool true))
    queryOk := ← getBool (fieldD c "queryOk" (Json.bool true))
    hasSchema := ← getBool (fieldD c "hasSchema" (Json.bool false))
    writable := fun b => b.all (fun p => p.2.all (fun r => !poison.contains r)) }
  let ops ← listOf getOp (← field j "ops")
  let variant ← getStr (fieldD j "variant" (Json.str "current"))
  let withStates ← getBool (fieldD j "states" (Json.bool true))
  let tr ← match variant with
    | "current" => pure (trace (step cfg) (L.init cfg) ops)
    | "pinned" => pure (trace (step0 cfg) (L.init cfg) ops)
    | v => throw s!"unknown variant {v}"
  pure (jList (fun o => Json.arr #[jOut o.1, if withStates then jState o.2 else Json.null]) tr)

end LianVerif.Drv.Loader
