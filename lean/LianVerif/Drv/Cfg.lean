/- Driver handlers for models "cfg" (the analysis) and "cfgcheck" (certified monitor, skeleton runs).
Trusted glue: JSON ↔ `S`. -/
import LianVerif.Drv.Util
import LianVerif.Model.Cfg
import LianVerif.Spec.Ctl

namespace LianVerif.Drv.Cfg
open Lean LianVerif.Drv LianVerif.Cfg

def getBoolD (j : Json) (k : String) (d : Bool) : Except String Bool :=
  match j.getObjVal? k with
  | .ok v => getBool v
  | .error _ => pure d

def arrD (j : Json) (k : String) : Except String (List Json) :=
  match j.getObjVal? k with
  | .ok (.arr a) => pure a.toList
  | .ok .null => pure []
  | .ok v => throw s!"field {k}: expected array, got {v.compress}"
  | .error _ => pure []

mutual
  /-- a JSON list of statement objects → `S` -/
  partial def toS (l : List Json) : Except String S :=
    match l with
    | [] => pure .nil
    | j :: more => do
      let k ← getStr (← field j "k")
      let id ← getNat (← field j "id")
      let rest ← toS more
      let blk := fun (name : String) => do toS (← arrD j name)
      match k with
      | "simple" => pure (.simple id rest)
      | "decl" => pure (.decl id rest)
      | "brk" => pure (.brk id rest)
      | "cont" => pure (.cont id rest)
      | "ret" => pure (.ret id rest)
      | "if" => pure (.ifS id (← blk "thn") (← blk "els") rest)
      | "while" => pure (.whileS id (← getBoolD j "ct" false) (← blk "pre") (← blk "body") (← blk "els") rest)
      | "do" => pure (.doS id (← getBoolD j "ct" false) (← blk "body") (← blk "pre") rest)
      | "for" =>
        pure (.forS id (← getBoolD j "ct" false) (← blk "init") (← blk "pre") (← blk "upd") (← blk "body") rest)
      | "class" =>
        pure (.classS id (← getBoolD j "flds" false) (← blk "sinit") (← blk "init") (← blk "methods")
          (← blk "nested") rest)
      | "try" =>
        pure (.tryS id (← blk "body") (← toClauses (← arrD j "catches")) (← blk "els") (← blk "fin") rest)
      | "switch" => pure (.switchS id (← getBoolD j "ft" true) (← toCases (← arrD j "cases")) rest)
      | _ => throw s!"unknown statement kind {k}"
  partial def toClauses (l : List Json) : Except String S :=
    match l with
    | [] => pure .nil
    | j :: more => do
      pure (.clause (← getNat (← field j "id")) (← toS (← arrD j "body")) (← toClauses more))
  partial def toCases (l : List Json) : Except String S :=
    match l with
    | [] => pure .nil
    | j :: more => do
      pure (.caseS (← getNat (← field j "id")) (← getBoolD j "dflt" false) (← toS (← arrD j "body"))
        (← toCases more))
end

def jPair (e : Int × Int) : Json := Json.arr #[jInt e.1, jInt e.2]
def jEdge (e : Nat × Int × Nat) : Json := Json.arr #[jNat e.1, jInt e.2.1, jNat e.2.2]

def getPair (j : Json) : Except String (Int × Int) := do
  let a ← getArr j
  if a.size < 2 then throw "edge must have at least 2 ints"
  pure (← getInt a[0]!, ← getInt a[1]!)

def outName : Out → String
  | .normal => "normal" | .brk => "brk" | .cont => "cont" | .ret => "ret" | .raise => "raise" | .stop => "stop"

def errName : Nat → String
  | 1 => "IndexError"
  | 2 => "TypeError"
  | n => s!"error{n}"

/-- {"m":"cfg","variant":"live"|"pinned","params":[…],"body":[…]} → {"edges":[[s,d,k]…]} | {"exc":name} -/
def handleCfg (j : Json) : Except String Json := do
  let params ← toS (← arrD j "params")
  let body ← toS (← arrD j "body")
  let variant ← getStr (fieldD j "variant" (Json.str "live"))
  let q ← match variant with
    | "live" => pure Q.live
    | "pinned" => pure Q.pinned
    | v => throw s!"unknown variant {v}"
  -- named constants the model was written for (CONTROL_FLOW_KIND); refuse when they moved
  match j.getObjVal? "kinds" with
  | .ok ks =>
    let l ← listOf getNat ks
    if l != [kEMPTY, kIF_TRUE, kIF_FALSE, kLOOP_TRUE, kLOOP_FALSE, kLOOP_BACK, kCONTINUE, kRETURN,
        kCATCH_TRUE, kCATCH_FALSE, kCATCH_FINALLY] then
      throw "CONTROL_FLOW_KIND values differ from the ones the model names"
  | .error _ => pure ()
  match cfg q params body with
  | .ok es => pure (Json.mkObj [("edges", jList jEdge es)])
  | .error c => pure (Json.mkObj [("exc", Json.str (errName c))])

/-- {"m":"cfgcheck","params":…,"body":…,"edges":[[s,d(,k)]…]} →
    {"ok":bool,"missing":[[a,b]…],"bad_entries":[…],"foreign":[…],"entries":[…],"wf":bool,"req":n}
    with "op":"run","fuel":n,"oracle":[bool…] → {"trace":[…],"out":name,"left":n} -/
def handleCheck (j : Json) : Except String Json := do
  let params ← toS (← arrD j "params")
  let body ← toS (← arrD j "body")
  let op ← getStr (fieldD j "op" (Json.str "check"))
  match op with
  | "check" =>
    let E ← listOf getPair (← field j "edges")
    pure (Json.mkObj [
      ("ok", Json.bool (cfgCheck params body E)),
      ("missing", jList jPair (missing params body E)),
      ("bad_entries", jList jInt (badEntries params body E)),
      ("foreign", jList jInt (foreign params body E)),
      ("entries", jList jInt (entries params body)),
      ("wf", Json.bool (wfCtl params body)),
      ("f0", Json.bool (inF0 params && inF0 body)),
      ("req", jNat (reqM params body).length)])
  | "run" =>
    let fuel ← getNat (← field j "fuel")
    let oracle ← listOf getBool (← field j "oracle")
    let r := runCtl fuel params body oracle
    pure (Json.mkObj [("trace", jList jInt r.tr), ("out", Json.str (outName r.out)), ("left", jNat r.o.length)])
  | "req" =>
    pure (Json.mkObj [("req", jList jPair (reqM params body)), ("entries", jList jInt (entries params body)),
      ("wf", Json.bool (wfCtl params body))])
  | o => throw s!"unknown op {o}"

end LianVerif.Drv.Cfg
