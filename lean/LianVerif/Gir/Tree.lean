/-
GIR trees — what a language frontend (`Parser.parse_gir`) hands to `GIRProcessing.flatten`
(DESIGN §4.2): a JSON-like value with ordered object keys.  A statement is an object whose first key
is the operation and whose value is the object of attributes; an attribute whose value is a list
starting with a non-empty object is a block.

Python facts used (and only these):
* dict iteration order = insertion order (`obj` is an association list; a Python dict has no
  duplicate keys — `WfGir` demands that of the list);
* truthiness: `None`, `0`, `""`, `[]`, `{}` are false;
* `str(list)` = `repr` of the elements joined by `", "` in brackets; `repr(str)` picks `'` unless
  the string contains `'` and no `"`, escapes `\\`, the quote, `\n \r \t`, and other characters
  below 0x20 and 0x7f as `\xNN`.  Characters ≥ 0x80 are copied unchanged (true for printable ones;
  the harness keeps non-printable non-ASCII characters out of the exact comparison).

Core Lean only.
-/
import LianVerif.Gir.Rows

namespace LianVerif.Gir

inductive JVal where
  | null
  | int (n : Int)
  | str (s : String)
  | list (xs : List JVal)
  | obj (kvs : List (String × JVal))
deriving Repr, Inhabited

/-! ### Python `repr` -/

def hexDigit (n : Nat) : Char :=
  if n < 10 then Char.ofNat (48 + n) else Char.ofNat (87 + n)

def reprChar (quote : Char) (c : Char) : List Char :=
  if c == quote || c == '\\' then ['\\', c]
  else if c == '\t' then ['\\', 't']
  else if c == '\n' then ['\\', 'n']
  else if c == '\r' then ['\\', 'r']
  else if c.toNat < 32 || c.toNat == 127 then ['\\', 'x', hexDigit (c.toNat / 16), hexDigit (c.toNat % 16)]
  else [c]

def reprStr (s : String) : String :=
  let cs := s.toList
  let quote : Char := if cs.contains '\'' && !cs.contains '"' then '"' else '\''
  String.ofList (quote :: (cs.flatMap (reprChar quote)) ++ [quote])

mutual
  def pyRepr : JVal → String
    | .null => "None"
    | .int n => toString n
    | .str s => reprStr s
    | .list xs => "[" ++ pyReprList xs ++ "]"
    | .obj kvs => "{" ++ pyReprObj kvs ++ "}"
  def pyReprList : List JVal → String
    | [] => ""
    | x :: xs => pyRepr x ++ (if xs.isEmpty then "" else ", ") ++ pyReprList xs
  def pyReprObj : List (String × JVal) → String
    | [] => ""
    | (k, v) :: kvs => reprStr k ++ ": " ++ pyRepr v ++ (if kvs.isEmpty then "" else ", ") ++ pyReprObj kvs
end

/-! ### Shape tests of `GIRProcessing` -/

/-- Python truthiness of a tree value that is a dict: `x and isinstance(x, dict)`. -/
def JVal.isNonEmptyObj : JVal → Bool
  | .obj (_ :: _) => true
  | _ => false

/-- `GIRProcessing.is_gir_format` on a list value: non-empty and the first element is a non-empty
dict. -/
def isGirFormat : List JVal → Bool
  | x :: _ => x.isNonEmptyObj
  | [] => false

/-- first key of a statement dict (`list(stmt.keys())[0]`), when there is one. -/
def JVal.firstKey? : JVal → Option String
  | .obj ((k, _) :: _) => some k
  | _ => none

def keysNodup : List (String × JVal) → Bool
  | [] => true
  | (k, _) :: rest => !(rest.any (fun kv => kv.1 == k)) && keysNodup rest

/-! ### `WfGir` — the trees on which flattening is claimed to produce well-formed rows.

Exactly: what `flatten` accepts without calling `util.error*` or raising, and in which
* no statement is named `block_start` / `block_end`,
* no attribute is named `operation` / `stmt_id` / `parent_stmt_id` (they would overwrite the row's
  own fields), `original_stmt` or `unit_id` (written by `flatten_stmt` / `add_unit_gir` themselves;
  they would overwrite a block reference),
* attribute objects have distinct keys (always true of a Python dict),
* every statement is `{op: {attrs…}}` — a content that is not a dict makes `flatten_stmt` return
  `None`, after which a following `assign_stmt`/`call_stmt` raises `TypeError`;
* a list that will become a block contains statements only.

A parameter `bodyKey` names the attributes that must hold blocks: under such a key a bare integer is
not allowed (it would read as a block id that names no block). -/

mutual
  def wfStmt (bodyKey : String → Bool) : JVal → Bool
    | .obj ((op, content) :: _) =>
      !(op == opStart) && !(op == opEnd) &&
      (match content with
       | .obj kvs => keysNodup kvs && wfAttrs bodyKey op kvs
       | _ => false)
    | _ => false
  def wfAttrs (bodyKey : String → Bool) (op : String) : List (String × JVal) → Bool
    | [] => true
    | (k, v) :: rest =>
      !reservedKey k && !(k == "original_stmt") && !(k == "unit_id") &&
      (match v with
       | .list xs => if isGirFormat xs || (op == "method_decl" && k == "body") then wfList bodyKey xs else true
       | .obj _ => false
       | .int _ => !bodyKey k
       | _ => true) &&
      wfAttrs bodyKey op rest
  def wfList (bodyKey : String → Bool) : List JVal → Bool
    | [] => true
    | c :: rest => wfStmt bodyKey c && wfList bodyKey rest
end

def WfGir (bodyKey : String → Bool) : JVal → Bool
  | .list xs => isGirFormat xs && wfList bodyKey xs
  | _ => false

end LianVerif.Gir
