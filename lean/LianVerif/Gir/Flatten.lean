/-
Model of `GIRProcessing.flatten` (src/lian/lang/lang_analysis.py), statement by statement.

Python                                   model
------                                   -----
`self.node_id` / `assign_id()`           the threaded counter `n`
`dataframe.append(...)`                  rows are returned in emission order
`flatten_stmt`                           `flattenStmt`   (the `for mykey, myvalue` loop is `flattenAttrs`)
`flatten_block`                          `flattenBlock`  (its `for child` loop is `flattenList`)
`flatten_gir` + `flatten`                `flatten`
`util.error_and_quit(..)` (SystemExit)   `.error .quit`
uncaught `IndexError` / `TypeError`      `.error (.exn "IndexError")` / `.error (.exn "TypeError")`

Quirks kept:
* a statement that is not a dict is reported with `util.error` and *skipped* (`flatten_stmt`
  returns `None`, which becomes `last_node`); if the next statement is an `assign_stmt`/`call_stmt`
  the test `"operation" in last_node` raises `TypeError`;
* `{}` as a statement raises `IndexError` (`list(stmt.keys())[0]`);
* only the first key of a statement dict is looked at; a non-dict content gives a row without attrs
  **and `flatten_stmt` returns `None`** (bare `return`), so it has the same effect on the next
  statement as a skipped one;
* a list attribute that is not `is_gir_format` becomes `None` when empty and `str(list)` otherwise —
  except `method_decl.body`, which is always flattened as a block;
* a dict attribute is `error_and_quit`;
* the `original_stmt` back-patch: when an `assign_stmt`/`call_stmt` directly follows (in the same
  list) a row whose operation is `variable_decl`, that earlier row gets `original_stmt = <id of the
  assign/call>`.  The Python mutates the earlier dict when it reaches the later statement; the model
  looks one statement ahead when it finishes the earlier one — the later statement's id is the
  counter value at that moment, and its operation is its first key.  (Both orders give the same
  rows; an error raised by the later statement discards all rows in either order.)
* attribute keys `operation` / `stmt_id` / `parent_stmt_id` overwrite the row's own fields (and the
  overwritten `stmt_id` is what later blocks of the same statement get as parent).

Core Lean only.
-/
import LianVerif.Gir.Tree

namespace LianVerif.Gir

inductive FlatErr where
  | quit                 -- util.error_and_quit → SystemExit
  | exn (cls : String)   -- uncaught Python exception of this class
  | unrep                -- a reserved key was overwritten with a value the model cannot represent
deriving DecidableEq, Repr

/-- operations after which `flatten_stmt` back-patches the preceding `variable_decl`
(`["assign_stmt", "call_stmt"]` in the source; extracted from the live code by the harness). -/
structure FlatParams where
  patchOps : List String := ["assign_stmt", "call_stmt"]

/-- `last_node` as seen by the statement after `prev`: does the look-ahead patch / raise apply? -/
def nextPatches (P : FlatParams) (next : List JVal) : Bool :=
  match next with
  | c :: _ => match c.firstKey? with
    | some op => P.patchOps.contains op
    | none => false
  | [] => false

def leafVal : JVal → AVal
  | .int n => .int n
  | .str s => .str s
  | _ => .none

def setKeyE (r : Row) (k : String) (v : AVal) : Except FlatErr Row :=
  match r.setKey k v with
  | some r' => .ok r'
  | none => .error .unrep

/-- the two marker rows `flatten_block` puts around the rows of its children; the block id `n` was
taken from the counter before the children were flattened. -/
def wrapBlock (n owner : Nat) (inner : Except FlatErr (Rows × Nat)) : Except FlatErr (Rows × Nat) :=
  match inner with
  | .ok (rows, n') => .ok (mkStart n owner :: rows ++ [mkEnd n owner], n')
  | .error e => .error e

/-- what one call of `flatten_stmt` leaves behind: the rows it appended (its own row first, then
the rows of its blocks) and whether it *returned* its row — the value the caller stores in
`last_node`.  It returns `None` both for a non-dict statement (nothing appended) and, through the
bare `return` after `if not isinstance(stmt_content, dict)`, for a statement whose content is not a
dict (row appended, without attributes). -/
structure StmtOut where
  emitted : Option (Row × Rows)
  returned : Bool

mutual
  /-- `flatten_stmt(stmt, _, dataframe, parent)` from counter `n`; result and new counter. -/
  def flattenStmt (P : FlatParams) (n parent : Nat) : JVal → Except FlatErr (StmtOut × Nat)
    | .obj [] => .error (.exn "IndexError")
    | .obj ((op, content) :: _) =>
      let row0 : Row := { op := op, id := n, parent := parent, attrs := [] }
      match content with
      | .obj kvs =>
        match flattenAttrs P (n + 1) row0 [] kvs with
        | .ok (row, sub, n') => .ok ({ emitted := some (row, sub), returned := true }, n')
        | .error e => .error e
      | _ => .ok ({ emitted := some (row0, []), returned := false }, n + 1)
    | _ => .ok ({ emitted := none, returned := false }, n)

  /-- the loop `for mykey, myvalue in stmt_content.items()`; `row` is `flattened_node` so far, `acc`
  the rows its blocks have emitted so far. -/
  def flattenAttrs (P : FlatParams) (n : Nat) (row : Row) (acc : Rows) :
      List (String × JVal) → Except FlatErr (Row × Rows × Nat)
    | [] => .ok (row, acc, n)
    | (k, v) :: rest =>
      match v with
      | .list xs =>
        if isGirFormat xs || (row.op == "method_decl" && k == "body") then
          -- `flatten_block(myvalue, flattened_node["stmt_id"], dataframe)`, see `flattenBlock` below
          match wrapBlock n row.id (flattenList P (n + 1) n xs) with
          | .ok (brows, n') =>
            match setKeyE row k (.int n) with
            | .ok row' => flattenAttrs P n' row' (acc ++ brows) rest
            | .error e => .error e
          | .error e => .error e
        else
          match setKeyE row k (if xs.isEmpty then AVal.none else AVal.str (pyRepr (.list xs))) with
          | .ok row' => flattenAttrs P n row' acc rest
          | .error e => .error e
      | .obj _ => .error .quit
      | leaf =>
        match setKeyE row k (leafVal leaf) with
        | .ok row' => flattenAttrs P n row' acc rest
        | .error e => .error e

  /-- the loop `for child in block: last_node = self.flatten_stmt(child, last_node, …)`. -/
  def flattenList (P : FlatParams) (n parent : Nat) : List JVal → Except FlatErr (Rows × Nat)
    | [] => .ok ([], n)
    | c :: rest =>
      match flattenStmt P n parent c with
      | .error e => .error e
      | .ok (out, n') =>
        -- `last_node` is `None` for the next statement: `"operation" in last_node` raises
        if !out.returned && nextPatches P rest then .error (.exn "TypeError")
        else
          match out.emitted with
          | none => flattenList P n' parent rest
          | some (row, sub) =>
            let patched : Except FlatErr Row :=
              if out.returned && nextPatches P rest && row.op == "variable_decl" then
                setKeyE row "original_stmt" (.int n')
              else .ok row
            match patched with
            | .error e => .error e
            | .ok row' =>
              match flattenList P n' parent rest with
              | .ok (rs, n'') => .ok (row' :: sub ++ rs, n'')
              | .error e => .error e
end

/-- `flatten_block(block, parent_stmt_id, dataframe)`: `block_id = assign_id()`, `block_start`,
children with `parent = block_id`, `block_end`. -/
def flattenBlock (P : FlatParams) (n owner : Nat) (xs : List JVal) : Except FlatErr (Rows × Nat) :=
  wrapBlock n owner (flattenList P (n + 1) n xs)

/-- `GIRProcessing(n).flatten(stmts)` → `(self.node_id, flattened_nodes)`. -/
def flatten (P : FlatParams) (n : Nat) (t : JVal) : Except FlatErr (Nat × Rows) :=
  match t with
  | .list xs =>
    if isGirFormat xs then
      match flattenList P n 0 xs with
      | .ok (rows, n') => .ok (n', rows)
      | .error e => .error e
    else .error .quit
  | _ => .error .quit

end LianVerif.Gir
