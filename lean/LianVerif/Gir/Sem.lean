/-
Gir/Sem.lean — REFERENCE SEMANTICS OF (STRUCTURED) GIR.  A *definition* in the trusted base
(DESIGN §3, §4.3): "the documented meaning of the GIR instructions"
(`docs/en/03.frontend/3-2.gir.md`) made precise as a fuel-indexed definitional interpreter.
Core Lean only (linked into `lvdrv`); shared by C01 (Python frontend) and C02 (other frontends).

Shape
* A program is a `List Stmt` (the top-level statement list of one unit, *after* flattening has been
  undone: bodies are nested lists again).  The harness converts the real flattened rows of
  `frontend/gir.bundle*` to this form (one constructor per GIR operation, attributes by name).
* Operands of GIR rows are text tokens.  `Opd.ofToken` fixes their reading: `"…"`/`'…'` string
  constant (escape sequences `\n \t \" \' \\` interpreted), decimal integer constant, `true`/`false`/`null` constants, empty token = absent
  (reads as `None`), everything else is a variable name.
* `State` = object heap (`heap`, data objects by address) + frame store (`frames`, variable frames by
  index; kept apart from the heap so that operators depend on the heap only and assignments on the
  frames only) + environment chain (`env`, innermost frame first, unit frame last) + output log +
  optional statement budget.
* `exec : Nat → State → List Stmt → Outcome × State` executes a statement list; ALL recursion is on
  the fuel argument (one unit per statement executed / per nesting level), so induction on fuel is
  the only induction principle needed.  Fuel bounds the recursion DEPTH; the total number of
  statements is bounded by `State.budget` (`none` = unlimited: the mode of the theorems; the driver
  passes `some n`).  Running out of either is the error `"fuel"` (never a value).
* Observables: `State.out` — one entry per executed output call (`print`/`output`), the canonical
  rendering of the argument values at the time of the call — and the entry's return value, rendered
  the same way (`runEntry`).

Readings fixed where the document is silent (each is what lian's analyses assume):
* `assign_stmt`  target = operand [operator operand2] on already evaluated operands.  `and`/`or`
  are ordinary *strict* binary operators (`a and b` = `b` if `a` is truthy else `a`): the frontend,
  not the instruction, is responsible for short-circuiting.
* `variable_decl` declares the name in the *current function frame* (no value yet); a declaration
  is in force for the WHOLE body of the function it occurs in, wherever it stands in that body (this
  is how lian's scope analysis reads it, and the frontends do place a `variable_decl` after the
  statement that first assigns the variable): calling a function declares all names its body
  declares (`declsL`) before the first statement runs.  Assignment
  to `x` writes the nearest frame of the environment chain (innermost first) that declares `x`; if
  none does, `x` is created in the current frame (temporaries `%vvN`).  `global_stmt x` makes the
  current frame resolve `x` in the unit frame, `nonlocal_stmt x` in the nearest *enclosing* frame
  that declares it.  Reads use the same resolution, then the built-ins.
* `while_stmt{condition, condition_prebody?, body, else_body?}`: run `condition_prebody`, test the
  *variable* `condition`; on true run `body` (+ `update_body` for `for_stmt`) and repeat; `continue`
  jumps to "repeat" (through `update_body`); `break` leaves without `else_body`.
* `forin_stmt{name, receiver, body}`: iterate the receiver's elements (list/tuple elements, range
  values, dict keys, string characters), binding `name` by ordinary assignment.
* `call_stmt`: callee and arguments are evaluated left to right; parameters are bound positional
  first, then named, then defaults.  A `default_value` token is evaluated *at call time in the
  environment the method was declared in* (the frontends store computed defaults in `%dvvN`
  variables of that environment).  A class value as callee allocates an instance and calls
  `__init__` with `%this` bound.
* `method_decl` executed as a statement binds `name` in the current frame to a closure over the
  current environment chain.  `class_decl` creates the class object, its methods closing over the
  current chain (the class body is *not* a scope), binds `name`, then runs `%class_sinit` (if any)
  with `%class` bound to the class.
* `object_call_stmt`: a method found on the class of an instance runs with `%this` = the instance.
* `array_write` at index = current length appends (this is how the frontends build literals);
  `array_read`/`array_write` also address records (dicts) by key.
* A unit is run by executing its top-level list in the unit frame (after `add_main_func` this only
  declares), then calling `%unit_init` if it is bound, then calling the entry with the arguments.

Outside the data fragment (error `unsupported:…`): try/with/switch/yield/goto, packed (`*`/`**`)
arguments and parameters, floats, nested classes.

Dialect spellings used by the non-Python frontends (added for C02; none changes the meaning of a
row the Python frontend emits):
* operators `&&`, `||` (= `and`, `or`: strict, on already evaluated operands) and `!` (= `not`);
* `new_object{target, data_type?, positional_args?}`: if `data_type` names a class the class is
  instantiated (as by calling it); otherwise (JavaScript object literal, unknown type) a fresh empty
  field map is allocated.  `field_read`/`field_write` address such a field map by field name, and
  an ARRAY by a decimal field name (`a.0` is `a[0]`, writing at `length` appends: JavaScript and PHP
  build array literals this way);
* `expression_stmt`, `package_stmt`, type declarations: no effect on data;
* a `class_decl` whose methods carry the attribute `static` (Java) also binds each static method by
  its simple name in the scope that declares the class (`classWithStatics`), which is how an
  unqualified call inside the class resolves.
-/

namespace LianVerif.Gir

/-! ## Values, operands, statements -/

inductive Val where
  | none
  | bool (b : Bool)
  | int (n : Int)
  | str (s : String)
  | ref (a : Nat)            -- address of a heap object
  | builtin (name : String)  -- built-in function
  deriving Repr, BEq, DecidableEq, Inhabited

inductive Opd where
  | lit (v : Val)
  | var (x : String)
  deriving Repr, BEq, DecidableEq, Inhabited

/-- escape sequences of a string-constant token (the frontends keep the SOURCE TEXT of a literal):
`\n`, `\t`, `\"`, `\'`, `\\` denote the character; any other backslash stays as it is. -/
def unescape : List Char → List Char
  | '\\' :: c :: rest =>
    if c == 'n' then '\n' :: unescape rest
    else if c == 't' then '\t' :: unescape rest
    else if c == '"' || c == '\'' || c == '\\' then c :: unescape rest
    else '\\' :: c :: unescape rest
  | c :: rest => c :: unescape rest
  | [] => []

/-- Reading of an operand token of a GIR row. -/
def Opd.ofToken (t : String) : Opd :=
  if t == "true" then .lit (.bool true)
  else if t == "false" then .lit (.bool false)
  else if t == "null" then .lit .none
  else match t.toList with
    | [] => .lit .none
    | c :: cs =>
      if c == '"' || c == '\'' then .lit (.str (String.ofList (unescape cs.dropLast)))
      else match t.toInt? with
        | some n => .lit (.int n)
        | none => .var t

/-- The token a frontend writes for an operand (inverse of `ofToken` on its image; strings are
written with double quotes as `escape_string` does). -/
def Opd.toToken : Opd → String
  | .var x => x
  | .lit (.bool true) => "true"
  | .lit (.bool false) => "false"
  | .lit .none => "null"
  | .lit (.int n) => toString n
  | .lit (.str s) => "\"" ++ s ++ "\""
  | .lit _ => "?"

structure Param where
  name : String
  dflt : Option Opd := none
  kwOnly : Bool := false
  packedPos : Bool := false
  packedNamed : Bool := false
  deriving Repr, Inhabited

inductive Stmt where
  | assign (target : String) (op : String) (a : Opd) (b : Option Opd)
  | call (target : String) (callee : Opd) (args : List Opd) (named : List (String × Opd))
  | objCall (target : String) (recv : Opd) (field : String) (args : List Opd) (named : List (String × Opd))
  | ret (v : Opd)
  | ifS (c : Opd) (thn els : List Stmt)
  /-- `while_stmt` (upd = []) and the loop part of `for_stmt`. -/
  | loop (c : Opd) (pre body upd els : List Stmt)
  | forin (name : String) (recv : Opd) (body : List Stmt)
  /-- internal: a `forin` in progress over iterable `it`, next position `idx`. -/
  | forinIter (name : String) (it : Val) (idx : Nat) (body : List Stmt)
  | block (body : List Stmt)
  | brk
  | cont
  | pass
  | varDecl (name : String)
  | globalS (name : String)
  | nonlocalS (name : String)
  | methodDecl (name : String) (params : List Param) (body : List Stmt)
  | classDecl (name : String) (supers : List Opd) (methods : List Stmt)
  | newArray (target : String) (tuple : Bool)
  | arrayWrite (arr idx src : Opd)
  | arrayRead (target : String) (arr idx : Opd)
  | arrayAppend (arr src : Opd)
  | arrayExtend (arr src : Opd)
  | newRecord (target : String)
  | recordWrite (rec key val : Opd)
  | recordExtend (rec src : Opd)
  | fieldRead (target : String) (recv : Opd) (field : String)
  | fieldWrite (recv : Opd) (field : String) (src : Opd)
  | sliceRead (target : String) (arr : Opd) (start stop step : Option Opd)
  | sliceWrite (arr src : Opd) (start stop step : Option Opd)
  /-- `new_object`: `cls` = the `data_type` token (absent for an object literal). -/
  | newObject (target : String) (cls : Option Opd) (args : List Opd)
  | unsupported (op : String)
  deriving Repr, Inhabited

/-! ## Heap, frames, state -/

structure Frame where
  /-- declared names; `none` = declared (`variable_decl`) but not yet assigned. -/
  vars : List (String × Option Val) := []
  globals : List String := []
  nonlocals : List String := []
  deriving Repr, Inhabited

inductive Obj where
  | list (xs : List Val)
  | tuple (xs : List Val)
  | dict (kvs : List (Val × Val))                 -- insertion ordered
  | range (start stop step : Int)
  | closure (name : String) (params : List Param) (body : List Stmt) (env : List Nat) (this : Option Val)
  | cls (name : String) (supers : List Nat) (attrs : List (String × Val))
  | inst (cls : Nat) (attrs : List (String × Val))
  deriving Repr, Inhabited

inductive Outcome where
  | normal
  | brk
  | cont
  | ret (v : Val)
  | err (kind : String)
  deriving Repr, BEq, DecidableEq, Inhabited

structure State where
  /-- data objects (lists, tuples, dicts, ranges, closures, classes, instances), by address. -/
  heap : List Obj := []
  /-- variable frames, by index; kept apart from `heap` so that operators depend on `heap` only and
  assignments on `frames` only.  Frames are never freed (closures may outlive their call). -/
  frames : List Frame := []
  /-- environment chain: indices of frames, innermost first; the last one is the unit frame. -/
  env : List Nat := []
  /-- output log, NEWEST first (`Obs.out` is oldest first). -/
  out : List String := []
  /-- remaining statement budget: `none` = unlimited (the mode the theorems are about),
  `some n` = the driver's cut-off (total number of statements still allowed; the fuel argument of
  `exec` only bounds the *depth* of the recursion).  Exhaustion is the error `"fuel"`.  A run that
  ends without that error is the same in both modes. -/
  budget : Option Nat := none
  deriving Repr, Inhabited

abbrev Res (α : Type) := Except String α

/-! ## Association lists -/

def alGet {β : Type} (l : List (String × β)) (k : String) : Option β :=
  match l with
  | [] => none
  | (k', v) :: rest => if k' == k then some v else alGet rest k

def alSet {β : Type} (l : List (String × β)) (k : String) (v : β) : List (String × β) :=
  match l with
  | [] => [(k, v)]
  | (k', v') :: rest => if k' == k then (k, v) :: rest else (k', v') :: alSet rest k v

def alHas {β : Type} (l : List (String × β)) (k : String) : Bool :=
  match l with
  | [] => false
  | (k', _) :: rest => k' == k || alHas rest k

/-! ## Heap access -/

def State.obj (σ : State) (a : Nat) : Option Obj := σ.heap[a]?

def State.alloc (σ : State) (o : Obj) : Nat × State :=
  (σ.heap.length, { σ with heap := σ.heap ++ [o] })

def State.setObj (σ : State) (a : Nat) (o : Obj) : State :=
  { σ with heap := σ.heap.set a o }

def State.frame (σ : State) (a : Nat) : Option Frame := σ.frames[a]?

def State.allocFrame (σ : State) (f : Frame) : Nat × State :=
  (σ.frames.length, { σ with frames := σ.frames ++ [f] })

def State.setFrame (σ : State) (a : Nat) (f : Frame) : State :=
  { σ with frames := σ.frames.set a f }

/-- first frame of `env` (innermost first) that declares `x`. -/
def State.findDecl (σ : State) : List Nat → String → Option Nat
  | [], _ => none
  | a :: rest, x =>
    match σ.frame a with
    | some f => if alHas f.vars x then some a else σ.findDecl rest x
    | none => σ.findDecl rest x

def builtins : List String := ["print", "output", "range", "len", "abs", "min", "max"]

/-- the frame in which `x` is resolved when the environment chain is `env`. -/
def State.resolve (σ : State) (env : List Nat) (x : String) : Option Nat :=
  match env with
  | [] => none
  | fp :: outer =>
    match σ.frame fp with
    | none => none
    | some f =>
      if f.globals.contains x then env.getLast?
      else if f.nonlocals.contains x then σ.findDecl outer x
      else σ.findDecl env x

def State.lookupIn (σ : State) (env : List Nat) (x : String) : Res Val :=
  match σ.resolve env x with
  | some a =>
    match σ.frame a with
    | some f =>
      match alGet f.vars x with
      | some none => .error ("raise:UnboundLocalError:" ++ x)
      | some (some v) => .ok v
      | none => if builtins.contains x then .ok (.builtin x) else .error ("raise:NameError:" ++ x)
    | none => .error "malformed:frame"
  | none => if builtins.contains x then .ok (.builtin x) else .error ("raise:NameError:" ++ x)

def State.lookup (σ : State) (x : String) : Res Val := σ.lookupIn σ.env x

def State.evalOpdIn (σ : State) (env : List Nat) : Opd → Res Val
  | .lit v => .ok v
  | .var x => σ.lookupIn env x

def State.evalOpd (σ : State) (o : Opd) : Res Val := σ.evalOpdIn σ.env o

def State.evalOpds (σ : State) : List Opd → Res (List Val)
  | [] => .ok []
  | o :: os =>
    match σ.evalOpd o with
    | .error e => .error e
    | .ok v =>
      match σ.evalOpds os with
      | .error e => .error e
      | .ok vs => .ok (v :: vs)

def State.evalNamed (σ : State) : List (String × Opd) → Res (List (String × Val))
  | [] => .ok []
  | (k, o) :: os =>
    match σ.evalOpd o with
    | .error e => .error e
    | .ok v =>
      match σ.evalNamed os with
      | .error e => .error e
      | .ok vs => .ok ((k, v) :: vs)

def State.evalOpt (σ : State) : Option Opd → Res (Option Val)
  | none => .ok none
  | some o =>
    match σ.evalOpd o with
    | .error e => .error e
    | .ok .none => .ok none
    | .ok v => .ok (some v)

/-- write `x := v` in frame `a`. -/
def State.setVarAt (σ : State) (a : Nat) (x : String) (v : Val) : Res State :=
  match σ.frame a with
  | some f => .ok (σ.setFrame a { f with vars := alSet f.vars x (some v) })
  | none => .error "malformed:frame"

/-- assignment to a name (see the header for the resolution rule). -/
def State.assign (σ : State) (x : String) (v : Val) : Res State :=
  match σ.env with
  | [] => .error "malformed:env"
  | fp :: _ =>
    match σ.resolve σ.env x with
    | some a => σ.setVarAt a x v
    | none =>
      match σ.frame fp with
      | some f =>
        if f.nonlocals.contains x then .error ("raise:SyntaxError:nonlocal:" ++ x)
        else σ.setVarAt fp x v
      | none => .error "malformed:frame"

/-- bind `x` in the *current* frame (declarations of methods/classes). -/
def State.bindHere (σ : State) (x : String) (v : Val) : Res State :=
  match σ.env with
  | [] => .error "malformed:env"
  | fp :: _ => σ.setVarAt fp x v

def State.modFrame (σ : State) (g : Frame → Frame) : Res State :=
  match σ.env with
  | [] => .error "malformed:env"
  | fp :: _ =>
    match σ.frame fp with
    | some f => .ok (σ.setFrame fp (g f))
    | none => .error "malformed:frame"

/-! ## Values: truthiness, equality, rendering -/

def asInt? : Val → Option Int
  | .int n => some n
  | .bool true => some 1
  | .bool false => some 0
  | _ => none

def truthyH (h : List Obj) : Val → Bool
  | .none => false
  | .bool b => b
  | .int n => n != 0
  | .str s => s != ""
  | .ref a =>
    match h[a]? with
    | some (.list xs) => !xs.isEmpty
    | some (.tuple xs) => !xs.isEmpty
    | some (.dict kvs) => !kvs.isEmpty
    | some (.range a b c) => if c > 0 then a < b else b < a
    | _ => true
  | .builtin _ => true

def State.truthy (σ : State) (v : Val) : Bool := truthyH σ.heap v

def zipAll (f : Val → Val → Bool) : List Val → List Val → Bool
  | [], [] => true
  | x :: xs, y :: ys => f x y && zipAll f xs ys
  | _, _ => false

/-- Python `==` (structural on lists/tuples/dicts, numeric between int and bool). -/
def valEq (h : List Obj) : Nat → Val → Val → Bool
  | 0, a, b => a == b
  | d+1, a, b =>
    match asInt? a, asInt? b with
    | some x, some y => x == y
    | _, _ =>
      match a, b with
      | .ref p, .ref q =>
        if p == q then true else
        match h[p]?, h[q]? with
        | some (.list xs), some (.list ys) => zipAll (valEq h d) xs ys
        | some (.tuple xs), some (.tuple ys) => zipAll (valEq h d) xs ys
        | some (.dict xs), some (.dict ys) =>
          xs.length == ys.length &&
          xs.all (fun kv => ys.any (fun kv' => valEq h d kv.1 kv'.1 && valEq h d kv.2 kv'.2))
        | _, _ => false
      | _, _ => a == b

def State.veq (σ : State) (a b : Val) : Bool := valEq σ.heap 32 a b

def joinWith (sep : String) : List String → String
  | [] => ""
  | [x] => x
  | x :: xs => x ++ sep ++ joinWith sep xs

/-- canonical rendering of a value (observable form).  Mirrors `canon()` of the Python harness. -/
def render (h : List Obj) : Nat → Val → String
  | _, .none => "None"
  | _, .bool true => "True"
  | _, .bool false => "False"
  | _, .int n => toString n
  | _, .str s => "'" ++ s ++ "'"
  | _, .builtin n => "<builtin " ++ n ++ ">"
  | 0, .ref _ => "<deep>"
  | d+1, .ref a =>
    match h[a]? with
    | some (.list xs) => "[" ++ joinWith ", " (xs.map (render h d)) ++ "]"
    | some (.tuple xs) => "(" ++ joinWith ", " (xs.map (render h d)) ++ ")"
    | some (.dict kvs) =>
      "{" ++ joinWith ", " (kvs.map (fun kv => render h d kv.1 ++ ": " ++ render h d kv.2)) ++ "}"
    | some (.range a b c) => "range(" ++ toString a ++ ", " ++ toString b ++ ", " ++ toString c ++ ")"
    | some (.inst c attrs) =>
      let cn := match h[c]? with
        | some (.cls n _ _) => n
        | _ => "?"
      "<" ++ cn ++ " {" ++ joinWith ", " (attrs.map (fun kv => kv.1 ++ ": " ++ render h d kv.2)) ++ "}>"
    | some (.cls n _ _) => "<class " ++ n ++ ">"
    | some (.closure n _ _ _ _) => "<function " ++ n ++ ">"
    | none => "<dangling>"

def State.render (σ : State) (v : Val) : String := Gir.render σ.heap 24 v

/-! ## Operators -/

def isInfix (p : List Char) : List Char → Bool
  | [] => p.isEmpty
  | c :: cs => p.isPrefixOf (c :: cs) || isInfix p cs

def replicateList {α : Type} (n : Int) (xs : List α) : List α :=
  (List.replicate n.toNat xs).flatten

def containsH (h : List Obj) (x c : Val) : Res Bool :=
  match c with
  | .str s =>
    match x with
    | .str p => .ok (isInfix p.toList s.toList)
    | _ => .error "raise:TypeError:in"
  | .ref a =>
    match h[a]? with
    | some (.list xs) => .ok (xs.any (valEq h 32 x))
    | some (.tuple xs) => .ok (xs.any (valEq h 32 x))
    | some (.dict kvs) => .ok (kvs.any (fun kv => valEq h 32 x kv.1))
    | some (.range lo hi st) =>
      match asInt? x with
      | some n =>
        if st > 0 then .ok (decide (lo ≤ n) && decide (n < hi) && (n - lo) % st == 0)
        else if st < 0 then .ok (decide (hi < n) && decide (n ≤ lo) && (lo - n) % (-st) == 0)
        else .ok false
      | none => .ok false
    | _ => .error "raise:TypeError:in"
  | _ => .error "raise:TypeError:in"

def cmpInt (op : String) (x y : Int) : Bool :=
  if op == "<" then x < y else if op == "<=" then x ≤ y else if op == ">" then x > y else x ≥ y

def cmpStr (op : String) (x y : String) : Bool :=
  if op == "<" then x < y else if op == "<=" then !(y < x) else if op == ">" then y < x else !(x < y)

/-- identity (`is`) — addresses for heap objects, value for atoms. -/
def valIs (a b : Val) : Bool := a == b

/-- allocate `o` at the end of heap `h`. -/
def allocH (h : List Obj) (o : Obj) : Val × List Obj := (.ref h.length, h ++ [o])

/-- binary operator on evaluated operands, as a function of the object heap only; returns the value
and the (possibly extended: list/tuple concatenation and repetition allocate) heap. -/
def binopH (h : List Obj) (op : String) (a b : Val) : Res (Val × List Obj) :=
  if op == "and" || op == "&&" then .ok (if truthyH h a then b else a, h)
  else if op == "or" || op == "||" then .ok (if truthyH h a then a else b, h)
  else if op == "==" then .ok (.bool (valEq h 32 a b), h)
  else if op == "!=" then .ok (.bool (!valEq h 32 a b), h)
  else if op == "is" then .ok (.bool (valIs a b), h)
  else if op == "is not" then .ok (.bool (!valIs a b), h)
  else if op == "in" then
    match containsH h a b with
    | .ok r => .ok (.bool r, h)
    | .error e => .error e
  else if op == "not in" then
    match containsH h a b with
    | .ok r => .ok (.bool (!r), h)
    | .error e => .error e
  else if op == "<" || op == "<=" || op == ">" || op == ">=" then
    match asInt? a, asInt? b with
    | some x, some y => .ok (.bool (cmpInt op x y), h)
    | _, _ =>
      match a, b with
      | .str x, .str y => .ok (.bool (cmpStr op x y), h)
      | _, _ => .error ("unsupported:compare:" ++ op)
  else
    match asInt? a, asInt? b with
    | some x, some y =>
      if op == "+" then .ok (.int (x + y), h)
      else if op == "-" then .ok (.int (x - y), h)
      else if op == "*" then .ok (.int (x * y), h)
      else if op == "//" then
        if y == 0 then .error "raise:ZeroDivisionError" else .ok (.int (Int.fdiv x y), h)
      else if op == "%" then
        if y == 0 then .error "raise:ZeroDivisionError" else .ok (.int (Int.fmod x y), h)
      else if op == "**" then
        if y < 0 then .error "unsupported:float" else .ok (.int (x ^ y.toNat), h)
      else if op == "<<" then
        if y < 0 then .error "raise:ValueError" else .ok (.int (x * 2 ^ y.toNat), h)
      else if op == ">>" then
        if y < 0 then .error "raise:ValueError" else .ok (.int (Int.fdiv x (2 ^ y.toNat)), h)
      else if op == "/" then .error "unsupported:float"
      else .error ("unsupported:operator:" ++ op)
    | _, _ =>
      match a, b with
      | .str x, .str y =>
        if op == "+" then .ok (.str (x ++ y), h) else .error ("raise:TypeError:" ++ op)
      | .str x, .int n =>
        if op == "*" then .ok (.str (String.join (List.replicate n.toNat x)), h)
        else .error ("raise:TypeError:" ++ op)
      | .int n, .str x =>
        if op == "*" then .ok (.str (String.join (List.replicate n.toNat x)), h)
        else .error ("raise:TypeError:" ++ op)
      | .ref p, .ref q =>
        match h[p]?, h[q]? with
        | some (.list xs), some (.list ys) =>
          if op == "+" then .ok (allocH h (.list (xs ++ ys)))
          else .error ("raise:TypeError:" ++ op)
        | some (.tuple xs), some (.tuple ys) =>
          if op == "+" then .ok (allocH h (.tuple (xs ++ ys)))
          else .error ("raise:TypeError:" ++ op)
        | _, _ => .error ("raise:TypeError:" ++ op)
      | .ref p, .int n =>
        match h[p]? with
        | some (.list xs) =>
          if op == "*" then .ok (allocH h (.list (replicateList n xs)))
          else .error ("raise:TypeError:" ++ op)
        | some (.tuple xs) =>
          if op == "*" then .ok (allocH h (.tuple (replicateList n xs)))
          else .error ("raise:TypeError:" ++ op)
        | _ => .error ("raise:TypeError:" ++ op)
      | .int n, .ref p =>
        match h[p]? with
        | some (.list xs) =>
          if op == "*" then .ok (allocH h (.list (replicateList n xs)))
          else .error ("raise:TypeError:" ++ op)
        | some (.tuple xs) =>
          if op == "*" then .ok (allocH h (.tuple (replicateList n xs)))
          else .error ("raise:TypeError:" ++ op)
        | _ => .error ("raise:TypeError:" ++ op)
      | _, _ => .error ("raise:TypeError:" ++ op)

def unopH (h : List Obj) (op : String) (a : Val) : Res Val :=
  if op == "not" || op == "!" then .ok (.bool (!truthyH h a))
  else
    match asInt? a with
    | some x =>
      if op == "-" then .ok (.int (-x))
      else if op == "+" then .ok (.int x)
      else if op == "~" then .ok (.int (-x - 1))
      else .error ("unsupported:operator:" ++ op)
    | none => .error ("raise:TypeError:unary" ++ op)

def State.contains (σ : State) (x c : Val) : Res Bool := containsH σ.heap x c

def State.binop (σ : State) (op : String) (a b : Val) : Res (Val × State) :=
  match binopH σ.heap op a b with
  | .ok (v, h') => .ok (v, { σ with heap := h' })
  | .error e => .error e

def State.unop (σ : State) (op : String) (a : Val) : Res Val := unopH σ.heap op a

/-! ## Containers -/

/-- Python index normalisation: `i` in `[-n, n)` ↦ position. -/
def normIndex (n : Nat) (i : Int) : Option Nat :=
  if 0 ≤ i then (if i < n then some i.toNat else none)
  else (if -i ≤ n then some (i + n).toNat else none)

def dictGet (σ : State) (kvs : List (Val × Val)) (k : Val) : Option Val :=
  match kvs with
  | [] => none
  | (k', v) :: rest => if σ.veq k k' then some v else dictGet σ rest k

def dictSet (σ : State) (kvs : List (Val × Val)) (k v : Val) : List (Val × Val) :=
  match kvs with
  | [] => [(k, v)]
  | (k', v') :: rest => if σ.veq k k' then (k', v) :: rest else (k', v') :: dictSet σ rest k v

def State.index (σ : State) (c i : Val) : Res Val :=
  match c with
  | .str s =>
    match asInt? i with
    | some n =>
      match normIndex s.length n with
      | some p => .ok (.str (String.ofList [s.toList.getD p ' ']))
      | none => .error "raise:IndexError"
    | none => .error "raise:TypeError:index"
  | .ref a =>
    match σ.obj a with
    | some (.list xs) =>
      match asInt? i with
      | some n =>
        match normIndex xs.length n with
        | some p => .ok (xs.getD p .none)
        | none => .error "raise:IndexError"
      | none => .error "raise:TypeError:index"
    | some (.tuple xs) =>
      match asInt? i with
      | some n =>
        match normIndex xs.length n with
        | some p => .ok (xs.getD p .none)
        | none => .error "raise:IndexError"
      | none => .error "raise:TypeError:index"
    | some (.dict kvs) =>
      match dictGet σ kvs i with
      | some v => .ok v
      | none => .error "raise:KeyError"
    | some (.range lo hi st) =>
      match asInt? i with
      | some n =>
        let len : Int := if st > 0 then (if lo < hi then (hi - lo + st - 1) / st else 0)
                         else if st < 0 then (if hi < lo then (lo - hi - st - 1) / (-st) else 0) else 0
        match normIndex len.toNat n with
        | some p => .ok (.int (lo + st * p))
        | none => .error "raise:IndexError"
      | none => .error "raise:TypeError:index"
    | _ => .error "raise:TypeError:subscript"
  | _ => .error "raise:TypeError:subscript"

def State.storeIndex (σ : State) (c i v : Val) : Res State :=
  match c with
  | .ref a =>
    match σ.obj a with
    | some (.list xs) =>
      match asInt? i with
      | some n =>
        if n == xs.length then .ok (σ.setObj a (.list (xs ++ [v])))
        else match normIndex xs.length n with
          | some p => .ok (σ.setObj a (.list (xs.set p v)))
          | none => .error "raise:IndexError"
      | none => .error "raise:TypeError:index"
    | some (.tuple xs) =>
      match asInt? i with
      | some n =>
        if n == xs.length then .ok (σ.setObj a (.tuple (xs ++ [v])))
        else .error "raise:TypeError:tuple-assign"
      | none => .error "raise:TypeError:index"
    | some (.dict kvs) => .ok (σ.setObj a (.dict (dictSet σ kvs i v)))
    | _ => .error "raise:TypeError:subscript-assign"
  | _ => .error "raise:TypeError:subscript-assign"

/-- elements an iteration visits, by position (live view of the container). -/
def State.iterAt (σ : State) (it : Val) (idx : Nat) : Res (Option Val) :=
  match it with
  | .str s =>
    match s.toList[idx]? with
    | some c => .ok (some (.str (String.ofList [c])))
    | none => .ok none
  | .ref a =>
    match σ.obj a with
    | some (.list xs) => .ok xs[idx]?
    | some (.tuple xs) => .ok xs[idx]?
    | some (.dict kvs) => .ok (kvs[idx]?.map (·.1))
    | some (.range lo hi st) =>
      let v : Int := lo + st * idx
      if st > 0 then .ok (if v < hi then some (.int v) else none)
      else if st < 0 then .ok (if v > hi then some (.int v) else none)
      else .error "raise:ValueError:range-step"
    | _ => .error "raise:TypeError:not-iterable"
  | _ => .error "raise:TypeError:not-iterable"

def State.elems (σ : State) (v : Val) : Res (List Val) :=
  match v with
  | .str s => .ok (s.toList.map (fun c => .str (String.ofList [c])))
  | .ref a =>
    match σ.obj a with
    | some (.list xs) => .ok xs
    | some (.tuple xs) => .ok xs
    | some (.dict kvs) => .ok (kvs.map (·.1))
    | _ => .error "raise:TypeError:not-iterable"
  | _ => .error "raise:TypeError:not-iterable"

/-- positions selected by `[start:stop:step]` on a sequence of length `n` (Python `slice.indices`). -/
def sliceIdx (n : Nat) (start stop step : Option Int) : Res (List Nat) :=
  let st : Int := step.getD 1
  let len : Int := n
  if st == 0 then .error "raise:ValueError:slice-step"
  else if st > 0 then
    let clamp (x : Int) : Int := if x < 0 then (if x + len < 0 then 0 else x + len) else (if x > len then len else x)
    let lo := clamp (start.getD 0)
    let hi := clamp (stop.getD len)
    let cnt : Int := if lo < hi then (hi - lo + st - 1) / st else 0
    .ok ((List.range cnt.toNat).map (fun (k : Nat) => (lo + st * (k : Int)).toNat))
  else
    let clamp (x : Int) : Int := if x < 0 then (if x + len < 0 then -1 else x + len) else (if x ≥ len then len - 1 else x)
    let lo := match start with | some x => clamp x | none => len - 1
    let hi := match stop with | some x => clamp x | none => -1
    let cnt : Int := if hi < lo then (lo - hi - st - 1) / (-st) else 0
    .ok ((List.range cnt.toNat).map (fun (k : Nat) => (lo + st * (k : Int)).toNat))

def optInt (v : Option Val) : Res (Option Int) :=
  match v with
  | none => .ok none
  | some x =>
    match asInt? x with
    | some n => .ok (some n)
    | none => .error "raise:TypeError:slice"

def State.slice (σ : State) (c : Val) (start stop step : Option Val) : Res (Val × State) :=
  match optInt start, optInt stop, optInt step with
  | .ok a, .ok b, .ok s =>
    match c with
    | .str str =>
      let cs := str.toList
      match sliceIdx cs.length a b s with
      | .ok idx => .ok (.str (String.ofList (idx.map (fun p => cs.getD p ' '))), σ)
      | .error e => .error e
    | .ref p =>
      match σ.obj p with
      | some (.list xs) =>
        match sliceIdx xs.length a b s with
        | .ok idx => let (r, σ') := σ.alloc (.list (idx.map (fun p => xs.getD p .none))); .ok (.ref r, σ')
        | .error e => .error e
      | some (.tuple xs) =>
        match sliceIdx xs.length a b s with
        | .ok idx => let (r, σ') := σ.alloc (.tuple (idx.map (fun p => xs.getD p .none))); .ok (.ref r, σ')
        | .error e => .error e
      | _ => .error "raise:TypeError:slice"
    | _ => .error "raise:TypeError:slice"
  | .error e, _, _ => .error e
  | _, .error e, _ => .error e
  | _, _, .error e => .error e

/-- `a[start:stop] = src` on lists (step absent or 1). -/
def State.storeSlice (σ : State) (c src : Val) (start stop step : Option Val) : Res State :=
  match optInt start, optInt stop, optInt step with
  | .ok a, .ok b, .ok s =>
    if s.getD 1 != 1 then .error "unsupported:slice-write-step" else
    match c with
    | .ref p =>
      match σ.obj p, σ.elems src with
      | some (.list xs), .ok ys =>
        let len : Int := xs.length
        let clamp (x : Int) : Int := if x < 0 then (if x + len < 0 then 0 else x + len) else (if x > len then len else x)
        let lo := (clamp (a.getD 0)).toNat
        let hi := (clamp (b.getD len)).toNat
        let hi := if hi < lo then lo else hi
        .ok (σ.setObj p (.list (xs.take lo ++ ys ++ xs.drop hi)))
      | _, .error e => .error e
      | _, _ => .error "raise:TypeError:slice-assign"
    | _ => .error "raise:TypeError:slice-assign"
  | .error e, _, _ => .error e
  | _, .error e, _ => .error e
  | _, _, .error e => .error e

/-! ## Attributes -/

/-- attribute lookup along the class chain (depth-first, left to right), `d` bounds the depth. -/
def classAttr (h : List Obj) : Nat → Nat → String → Option Val
  | 0, _, _ => none
  | d+1, c, f =>
    match h[c]? with
    | some (.cls _ supers attrs) =>
      match alGet attrs f with
      | some v => some v
      | none => supers.findSome? (fun s => classAttr h d s f)
    | _ => none

/-- `recv.field`: (value, receiver to bind as `%this` when the value is a method found on the class). -/
def State.getAttr (σ : State) (recv : Val) (field : String) : Res (Val × Option Val) :=
  match recv with
  | .ref a =>
    match σ.obj a with
    | some (.inst c attrs) =>
      match alGet attrs field with
      | some v => .ok (v, none)
      | none =>
        match classAttr σ.heap 16 c field with
        | some v => .ok (v, some recv)
        | none => .error ("raise:AttributeError:" ++ field)
    | some (.cls _ _ _) =>
      match classAttr σ.heap 16 a field with
      | some v => .ok (v, none)
      | none => .error ("raise:AttributeError:" ++ field)
    | some (.dict kvs) =>
      match dictGet σ kvs (.str field) with
      | some v => .ok (v, none)
      | none => .error ("raise:AttributeError:" ++ field)
    | some (.list xs) =>
      match field.toNat? with
      | some n =>
        match xs[n]? with
        | some v => .ok (v, none)
        | none => .error "raise:IndexError"
      | none => .error ("raise:AttributeError:" ++ field)
    | _ => .error ("raise:AttributeError:" ++ field)
  | _ => .error ("raise:AttributeError:" ++ field)

def State.setAttr (σ : State) (recv : Val) (field : String) (v : Val) : Res State :=
  match recv with
  | .ref a =>
    match σ.obj a with
    | some (.inst c attrs) => .ok (σ.setObj a (.inst c (alSet attrs field v)))
    | some (.cls n s attrs) => .ok (σ.setObj a (.cls n s (alSet attrs field v)))
    | some (.dict kvs) => .ok (σ.setObj a (.dict (dictSet σ kvs (.str field) v)))
    | some (.list xs) =>
      match field.toNat? with
      | some n =>
        if n == xs.length then .ok (σ.setObj a (.list (xs ++ [v])))
        else if n < xs.length then .ok (σ.setObj a (.list (xs.set n v)))
        else .error "raise:IndexError"
      | none => .error ("raise:AttributeError:" ++ field)
    | _ => .error ("raise:AttributeError:" ++ field)
  | _ => .error ("raise:AttributeError:" ++ field)

/-! ## Simple (non-control, non-calling) statements -/

/-- one step of a statement that neither transfers control nor calls user code.
`none`: the statement is not of that kind. -/
def stepSimple (σ : State) (s : Stmt) : Option (Res State) :=
  match s with
  | .pass => some (.ok σ)
  | .varDecl x =>
    some (σ.modFrame (fun f => if alHas f.vars x then f else { f with vars := f.vars ++ [(x, none)] }))
  | .globalS x => some (σ.modFrame (fun f => { f with globals := x :: f.globals }))
  | .nonlocalS x => some (σ.modFrame (fun f => { f with nonlocals := x :: f.nonlocals }))
  | .assign t op a b =>
    some <|
      match σ.evalOpd a with
      | .error e => .error e
      | .ok va =>
        match b with
        | none =>
          if op == "" then σ.assign t va
          else match σ.unop op va with
            | .ok v => σ.assign t v
            | .error e => .error e
        | some b =>
          match σ.evalOpd b with
          | .error e => .error e
          | .ok vb =>
            match σ.binop op va vb with
            | .ok (v, σ') => σ'.assign t v
            | .error e => .error e
  | .newArray t tup =>
    some <| let (r, σ') := σ.alloc (if tup then .tuple [] else .list []); σ'.assign t (.ref r)
  | .newRecord t =>
    some <| let (r, σ') := σ.alloc (.dict []); σ'.assign t (.ref r)
  | .arrayWrite arr idx src =>
    some <|
      match σ.evalOpd arr, σ.evalOpd idx, σ.evalOpd src with
      | .ok c, .ok i, .ok v => σ.storeIndex c i v
      | .error e, _, _ => .error e
      | _, .error e, _ => .error e
      | _, _, .error e => .error e
  | .arrayRead t arr idx =>
    some <|
      match σ.evalOpd arr, σ.evalOpd idx with
      | .ok c, .ok i =>
        match σ.index c i with
        | .ok v => σ.assign t v
        | .error e => .error e
      | .error e, _ => .error e
      | _, .error e => .error e
  | .arrayAppend arr src =>
    some <|
      match σ.evalOpd arr, σ.evalOpd src with
      | .ok (.ref a), .ok v =>
        match σ.obj a with
        | some (.list xs) => .ok (σ.setObj a (.list (xs ++ [v])))
        | some (.tuple xs) => .ok (σ.setObj a (.tuple (xs ++ [v])))
        | _ => .error "raise:TypeError:append"
      | .ok _, .ok _ => .error "raise:TypeError:append"
      | .error e, _ => .error e
      | _, .error e => .error e
  | .arrayExtend arr src =>
    some <|
      match σ.evalOpd arr, σ.evalOpd src with
      | .ok (.ref a), .ok v =>
        match σ.obj a, σ.elems v with
        | some (.list xs), .ok ys => .ok (σ.setObj a (.list (xs ++ ys)))
        | some (.tuple xs), .ok ys => .ok (σ.setObj a (.tuple (xs ++ ys)))
        | _, .error e => .error e
        | _, _ => .error "raise:TypeError:extend"
      | .ok _, .ok _ => .error "raise:TypeError:extend"
      | .error e, _ => .error e
      | _, .error e => .error e
  | .recordWrite rec key val =>
    some <|
      match σ.evalOpd rec, σ.evalOpd key, σ.evalOpd val with
      | .ok (.ref a), .ok k, .ok v =>
        match σ.obj a with
        | some (.dict kvs) => .ok (σ.setObj a (.dict (dictSet σ kvs k v)))
        | _ => .error "raise:TypeError:record_write"
      | .ok _, .ok _, .ok _ => .error "raise:TypeError:record_write"
      | .error e, _, _ => .error e
      | _, .error e, _ => .error e
      | _, _, .error e => .error e
  | .recordExtend rec src =>
    some <|
      match σ.evalOpd rec, σ.evalOpd src with
      | .ok (.ref a), .ok (.ref b) =>
        match σ.obj a, σ.obj b with
        | some (.dict kvs), some (.dict more) =>
          .ok (σ.setObj a (.dict (more.foldl (fun acc kv => dictSet σ acc kv.1 kv.2) kvs)))
        | _, _ => .error "raise:TypeError:record_extend"
      | .ok _, .ok _ => .error "raise:TypeError:record_extend"
      | .error e, _ => .error e
      | _, .error e => .error e
  | .fieldRead t recv field =>
    some <|
      match σ.evalOpd recv with
      | .error e => .error e
      | .ok r =>
        match σ.getAttr r field with
        | .error e => .error e
        | .ok (v, none) => σ.assign t v
        | .ok (.ref a, some this) =>
          match σ.obj a with
          | some (.closure n ps b env _) =>
            let (m, σ') := σ.alloc (.closure n ps b env (some this))
            σ'.assign t (.ref m)
          | _ => σ.assign t (.ref a)
        | .ok (v, some _) => σ.assign t v
  | .fieldWrite recv field src =>
    some <|
      match σ.evalOpd recv, σ.evalOpd src with
      | .ok r, .ok v => σ.setAttr r field v
      | .error e, _ => .error e
      | _, .error e => .error e
  | .sliceRead t arr a b c =>
    some <|
      match σ.evalOpd arr, σ.evalOpt a, σ.evalOpt b, σ.evalOpt c with
      | .ok cv, .ok x, .ok y, .ok z =>
        match σ.slice cv x y z with
        | .ok (v, σ') => σ'.assign t v
        | .error e => .error e
      | .error e, _, _, _ => .error e
      | _, .error e, _, _ => .error e
      | _, _, .error e, _ => .error e
      | _, _, _, .error e => .error e
  | .sliceWrite arr src a b c =>
    some <|
      match σ.evalOpd arr, σ.evalOpd src, σ.evalOpt a, σ.evalOpt b, σ.evalOpt c with
      | .ok cv, .ok sv, .ok x, .ok y, .ok z => σ.storeSlice cv sv x y z
      | .error e, _, _, _, _ => .error e
      | _, .error e, _, _, _ => .error e
      | _, _, .error e, _, _ => .error e
      | _, _, _, .error e, _ => .error e
      | _, _, _, _, .error e => .error e
  | .methodDecl name ps body =>
    some <| let (r, σ') := σ.alloc (.closure name ps body σ.env none); σ'.bindHere name (.ref r)
  | .unsupported op => some (.error ("unsupported:" ++ op))
  | _ => none

/-! ## Calls -/

/-- positional phase of parameter binding: returns bound pairs. -/
def bindPositional : List Param → List Val → Res (List (String × Val))
  | _, [] => .ok []
  | [], _ :: _ => .error "raise:TypeError:too-many-positional"
  | p :: ps, a :: as =>
    if p.packedPos || p.packedNamed then .error "unsupported:packed-parameter"
    else if p.kwOnly then bindPositional ps (a :: as)
    else
      match bindPositional ps as with
      | .ok r => .ok ((p.name, a) :: r)
      | .error e => .error e

def bindNamed (ps : List Param) (bound : List (String × Val)) : List (String × Val) → Res (List (String × Val))
  | [] => .ok bound
  | (k, v) :: rest =>
    if alHas bound k then .error ("raise:TypeError:multiple-values:" ++ k)
    else if ps.any (fun p => p.name == k) then bindNamed ps (bound ++ [(k, v)]) rest
    else .error ("raise:TypeError:unexpected-keyword:" ++ k)

def State.bindDefaults (σ : State) (cenv : List Nat) (bound : List (String × Val)) :
    List Param → Res (List (String × Val))
  | [] => .ok bound
  | p :: ps =>
    if p.packedPos || p.packedNamed then .error "unsupported:packed-parameter"
    else if alHas bound p.name then σ.bindDefaults cenv bound ps
    else
      match p.dflt with
      | none => .error ("raise:TypeError:missing-argument:" ++ p.name)
      | some d =>
        match σ.evalOpdIn cenv d with
        | .ok v => σ.bindDefaults cenv (bound ++ [(p.name, v)]) ps
        | .error e => .error e

def State.bindParams (σ : State) (cenv : List Nat) (ps : List Param) (args : List Val)
    (named : List (String × Val)) : Res (List (String × Val)) :=
  match bindPositional ps args with
  | .error e => .error e
  | .ok b1 =>
    match bindNamed ps b1 named with
    | .error e => .error e
    | .ok b2 => σ.bindDefaults cenv b2 ps

mutual
/-- names declared by the `variable_decl`s of one function body (nested blocks included; bodies of
nested method / class declarations are functions of their own). -/
def declsS : Stmt → List String
  | .varDecl x => [x]
  | .ifS _ t e => declsL t ++ declsL e
  | .loop _ pre b u e => declsL pre ++ declsL b ++ declsL u ++ declsL e
  | .forin _ _ b => declsL b
  | .forinIter _ _ _ b => declsL b
  | .block b => declsL b
  | _ => []

def declsL : List Stmt → List String
  | [] => []
  | s :: rest => declsS s ++ declsL rest
end

/-- the frame slots of the declared names that are not bound yet (`none` = declared, no value). -/
def declSlots (bound : List (String × Option Val)) : List String → List (String × Option Val)
  | [] => []
  | x :: rest =>
    if alHas bound x then declSlots bound rest
    else (x, none) :: declSlots ((x, none) :: bound) rest

abbrev Runner := State → List Stmt → Outcome × State

/-- run a closure: new frame (extra bindings `pre`, then parameters) on top of the closure's chain. -/
def invokeClosure (run : Runner) (σ : State) (ps : List Param) (body : List Stmt) (cenv : List Nat)
    (pre : List (String × Val)) (args : List Val) (named : List (String × Val)) : Res Val × State :=
  match σ.bindParams cenv ps args named with
  | .error e => (.error e, σ)
  | .ok vars =>
    let bound : List (String × Option Val) := (pre ++ vars).map (fun p => (p.1, some p.2))
    let (fa, σ1) := σ.allocFrame { vars := bound ++ declSlots bound (declsL body) }
    let saved := σ.env
    match run { σ1 with env := fa :: cenv } body with
    | (.ret v, σ2) => (.ok v, { σ2 with env := saved })
    | (.normal, σ2) => (.ok .none, { σ2 with env := saved })
    | (.err e, σ2) => (.error e, { σ2 with env := saved })
    | (.brk, σ2) => (.error "malformed:break-outside-loop", { σ2 with env := saved })
    | (.cont, σ2) => (.error "malformed:continue-outside-loop", { σ2 with env := saved })

def intArgs : List Val → Option (List Int)
  | [] => some []
  | v :: vs =>
    match asInt? v, intArgs vs with
    | some n, some ns => some (n :: ns)
    | _, _ => none

def callBuiltin (σ : State) (name : String) (args : List Val) (named : List (String × Val)) : Res Val × State :=
  if !named.isEmpty then (.error "unsupported:builtin-keyword-argument", σ)
  else if name == "print" || name == "output" then
    (.ok .none, { σ with out := joinWith ", " (args.map σ.render) :: σ.out })
  else if name == "range" then
    match intArgs args with
    | some [b] => let (r, σ') := σ.alloc (.range 0 b 1); (.ok (.ref r), σ')
    | some [a, b] => let (r, σ') := σ.alloc (.range a b 1); (.ok (.ref r), σ')
    | some [a, b, c] =>
      if c == 0 then (.error "raise:ValueError:range-step", σ)
      else let (r, σ') := σ.alloc (.range a b c); (.ok (.ref r), σ')
    | _ => (.error "raise:TypeError:range", σ)
  else if name == "len" then
    match args with
    | [.str s] => (.ok (.int s.length), σ)
    | [.ref a] =>
      match σ.obj a with
      | some (.list xs) => (.ok (.int xs.length), σ)
      | some (.tuple xs) => (.ok (.int xs.length), σ)
      | some (.dict kvs) => (.ok (.int kvs.length), σ)
      | some (.range lo hi st) =>
        let len : Int := if st > 0 then (if lo < hi then (hi - lo + st - 1) / st else 0)
                         else if st < 0 then (if hi < lo then (lo - hi - st - 1) / (-st) else 0) else 0
        (.ok (.int len), σ)
      | _ => (.error "raise:TypeError:len", σ)
    | _ => (.error "raise:TypeError:len", σ)
  else if name == "abs" then
    match intArgs args with
    | some [a] => (.ok (.int (if a < 0 then -a else a)), σ)
    | _ => (.error "raise:TypeError:abs", σ)
  else if name == "min" then
    match intArgs args with
    | some (a :: b :: rest) => (.ok (.int ((b :: rest).foldl (fun m x => if x < m then x else m) a)), σ)
    | _ => (.error "unsupported:min", σ)
  else if name == "max" then
    match intArgs args with
    | some (a :: b :: rest) => (.ok (.int ((b :: rest).foldl (fun m x => if x > m then x else m) a)), σ)
    | _ => (.error "unsupported:max", σ)
  else (.error ("unsupported:builtin:" ++ name), σ)

/-- built-in methods of lists and dicts (`receiver.field(args)`). -/
def callBuiltinMethod (σ : State) (recv : Val) (field : String) (args : List Val) : Option (Res Val × State) :=
  match recv with
  | .ref a =>
    match σ.obj a with
    | some (.list xs) =>
      if field == "append" then
        match args with
        | [v] => some (.ok .none, σ.setObj a (.list (xs ++ [v])))
        | _ => some (.error "raise:TypeError:append", σ)
      else if field == "pop" then
        match args with
        | [] =>
          match xs.getLast? with
          | some v => some (.ok v, σ.setObj a (.list xs.dropLast))
          | none => some (.error "raise:IndexError", σ)
        | [i] =>
          match asInt? i with
          | some n =>
            match normIndex xs.length n with
            | some p => some (.ok (xs.getD p .none), σ.setObj a (.list (xs.eraseIdx p)))
            | none => some (.error "raise:IndexError", σ)
          | none => some (.error "raise:TypeError:pop", σ)
        | _ => some (.error "raise:TypeError:pop", σ)
      else if field == "extend" then
        match args with
        | [v] =>
          match σ.elems v with
          | .ok ys => some (.ok .none, σ.setObj a (.list (xs ++ ys)))
          | .error e => some (.error e, σ)
        | _ => some (.error "raise:TypeError:extend", σ)
      else some (.error ("unsupported:list-method:" ++ field), σ)
    | some (.dict kvs) =>
      if field == "get" then
        match args with
        | [k] => some (.ok ((dictGet σ kvs k).getD .none), σ)
        | [k, d] => some (.ok ((dictGet σ kvs k).getD d), σ)
        | _ => some (.error "raise:TypeError:get", σ)
      else if field == "keys" then
        let (r, σ') := σ.alloc (.list (kvs.map (·.1))); some (.ok (.ref r), σ')
      else if field == "values" then
        let (r, σ') := σ.alloc (.list (kvs.map (·.2))); some (.ok (.ref r), σ')
      else some (.error ("unsupported:dict-method:" ++ field), σ)
    | _ => none
  | _ => none

/-- call a value. -/
def invoke (run : Runner) (σ : State) (f : Val) (this : Option Val) (args : List Val)
    (named : List (String × Val)) : Res Val × State :=
  match f with
  | .builtin n => callBuiltin σ n args named
  | .ref a =>
    match σ.obj a with
    | some (.closure _ ps body cenv bound) =>
      let self := match this with
        | some t => some t
        | none => bound
      let pre := match self with
        | some t => [("%this", t)]
        | none => []
      invokeClosure run σ ps body cenv pre args named
    | some (.cls _ _ _) =>
      let (ia, σ1) := σ.alloc (.inst a [])
      match classAttr σ1.heap 16 a "__init__" with
      | some (.ref m) =>
        match σ1.obj m with
        | some (.closure _ ps body cenv _) =>
          match invokeClosure run σ1 ps body cenv [("%this", .ref ia)] args named with
          | (.ok _, σ2) => (.ok (.ref ia), σ2)
          | (.error e, σ2) => (.error e, σ2)
        | _ => (.error "raise:TypeError:__init__", σ1)
      | some _ => (.error "raise:TypeError:__init__", σ1)
      | none =>
        if args.isEmpty && named.isEmpty then (.ok (.ref ia), σ1)
        else (.error "raise:TypeError:no-init", σ1)
    | _ => (.error "raise:TypeError:not-callable", σ)
  | _ => (.error "raise:TypeError:not-callable", σ)

/-- closures for the `method_decl`s of a class body. -/
def State.mkMethods (σ : State) : List Stmt → List (String × Val) → List (String × Val) × State
  | [], acc => (acc, σ)
  | .methodDecl n ps b :: rest, acc =>
    let (r, σ') := σ.alloc (.closure n ps b σ.env none)
    σ'.mkMethods rest (alSet acc n (.ref r))
  | _ :: rest, acc => σ.mkMethods rest acc

def classRefs (σ : State) : List Val → Option (List Nat)
  | [] => some []
  | .ref a :: rest =>
    match σ.obj a, classRefs σ rest with
    | some (.cls _ _ _), some r => some (a :: r)
    | _, _ => none
  | _ :: _ => none

/-! ## The interpreter -/

/-- consume one unit of the statement budget. -/
def State.tick (σ : State) : Option State :=
  match σ.budget with
  | none => some σ
  | some 0 => none
  | some (n+1) => some { σ with budget := some n }

def exec : Nat → State → List Stmt → Outcome × State
  | 0, σ, _ => (.err "fuel", σ)
  | _+1, σ, [] => (.normal, σ)
  | fuel+1, σ0, s :: rest =>
    match σ0.tick with
    | none => (.err "fuel", σ0)
    | some σ =>
    match s with
    | .ret v =>
      match σ.evalOpd v with
      | .ok x => (.ret x, σ)
      | .error e => (.err e, σ)
    | .brk => (.brk, σ)
    | .cont => (.cont, σ)
    | .block body =>
      match exec fuel σ body with
      | (.normal, σ') => exec fuel σ' rest
      | r => r
    | .ifS c t e =>
      match σ.evalOpd c with
      | .error er => (.err er, σ)
      | .ok v =>
        match exec fuel σ (if σ.truthy v then t else e) with
        | (.normal, σ') => exec fuel σ' rest
        | r => r
    | .loop c pre body upd els =>
      match exec fuel σ pre with
      | (.normal, σ1) =>
        match σ1.evalOpd c with
        | .error er => (.err er, σ1)
        | .ok v =>
          if σ1.truthy v then
            match exec fuel σ1 body with
            | (.normal, σ2) =>
              match exec fuel σ2 upd with
              | (.normal, σ3) => exec fuel σ3 (s :: rest)
              | r => r
            | (.cont, σ2) =>
              match exec fuel σ2 upd with
              | (.normal, σ3) => exec fuel σ3 (s :: rest)
              | r => r
            | (.brk, σ2) => exec fuel σ2 rest
            | r => r
          else
            match exec fuel σ1 els with
            | (.normal, σ2) => exec fuel σ2 rest
            | r => r
      | r => r
    | .forin x recv body =>
      match σ.evalOpd recv with
      | .error e => (.err e, σ)
      | .ok it => exec fuel σ (.forinIter x it 0 body :: rest)
    | .forinIter x it idx body =>
      match σ.iterAt it idx with
      | .error e => (.err e, σ)
      | .ok none => exec fuel σ rest
      | .ok (some v) =>
        match σ.assign x v with
        | .error e => (.err e, σ)
        | .ok σ1 =>
          match exec fuel σ1 body with
          | (.normal, σ2) => exec fuel σ2 (.forinIter x it (idx + 1) body :: rest)
          | (.cont, σ2) => exec fuel σ2 (.forinIter x it (idx + 1) body :: rest)
          | (.brk, σ2) => exec fuel σ2 rest
          | r => r
    | .call t f args named =>
      match σ.evalOpd f, σ.evalOpds args, σ.evalNamed named with
      | .ok fv, .ok avs, .ok nvs =>
        match invoke (exec fuel) σ fv none avs nvs with
        | (.ok v, σ1) =>
          match σ1.assign t v with
          | .ok σ2 => exec fuel σ2 rest
          | .error e => (.err e, σ1)
        | (.error e, σ1) => (.err e, σ1)
      | .error e, _, _ => (.err e, σ)
      | _, .error e, _ => (.err e, σ)
      | _, _, .error e => (.err e, σ)
    | .objCall t recv field args named =>
      match σ.evalOpd recv, σ.evalOpds args, σ.evalNamed named with
      | .ok rv, .ok avs, .ok nvs =>
        let r : Res Val × State :=
          match callBuiltinMethod σ rv field avs with
          | some r => r
          | none =>
            match σ.getAttr rv field with
            | .error e => (.error e, σ)
            | .ok (fv, this) => invoke (exec fuel) σ fv this avs nvs
        match r with
        | (.ok v, σ1) =>
          match σ1.assign t v with
          | .ok σ2 => exec fuel σ2 rest
          | .error e => (.err e, σ1)
        | (.error e, σ1) => (.err e, σ1)
      | .error e, _, _ => (.err e, σ)
      | _, .error e, _ => (.err e, σ)
      | _, _, .error e => (.err e, σ)
    | .newObject t cls args =>
      match σ.evalOpds args with
      | .error e => (.err e, σ)
      | .ok avs =>
        let clsVal : Option Val :=
          match cls with
          | none => none
          | some c =>
            match σ.evalOpd c with
            | .ok (.ref a) =>
              match σ.obj a with
              | some (.cls _ _ _) => some (.ref a)
              | _ => none
            | _ => none
        match clsVal with
        | some cv =>
          match invoke (exec fuel) σ cv none avs [] with
          | (.ok v, σ1) =>
            match σ1.assign t v with
            | .ok σ2 => exec fuel σ2 rest
            | .error e => (.err e, σ1)
          | (.error e, σ1) => (.err e, σ1)
        | none =>
          let (r, σ1) := σ.alloc (.dict [])
          match σ1.assign t (.ref r) with
          | .ok σ2 => exec fuel σ2 rest
          | .error e => (.err e, σ1)
    | .classDecl name supers methods =>
      match σ.evalOpds supers with
      | .error e => (.err e, σ)
      | .ok svs =>
        match classRefs σ svs with
        | none => (.err "unsupported:superclass", σ)
        | some srefs =>
          let (attrs, σ1) := σ.mkMethods methods []
          let (ca, σ2) := σ1.alloc (.cls name srefs attrs)
          match σ2.bindHere name (.ref ca) with
          | .error e => (.err e, σ2)
          | .ok σ3 =>
            match alGet attrs "%class_sinit" with
            | some (.ref m) =>
              match σ3.obj m with
              | some (.closure _ ps body cenv _) =>
                match invokeClosure (exec fuel) σ3 ps body cenv [("%class", .ref ca)] [] [] with
                | (.ok _, σ4) => exec fuel σ4 rest
                | (.error e, σ4) => (.err e, σ4)
              | _ => (.err "malformed:sinit", σ3)
            | _ => exec fuel σ3 rest
    | _ =>
      match stepSimple σ s with
      | some (.ok σ') => exec fuel σ' rest
      | some (.error e) => (.err e, σ)
      | none => (.err "malformed:statement", σ)

/-- reading of `static` methods (Java): the class declaration, then each static method bound by its
simple name in the declaring scope. -/
def classWithStatics (name : String) (supers : List Opd) (methods : List Stmt) (statics : List String) : Stmt :=
  .block (.classDecl name supers methods :: statics.map (fun m => .fieldRead m (.var name) m))

/-! ## Running a unit -/

/-- initial state: one empty unit frame. -/
def State.init (budget : Option Nat := none) : State :=
  { heap := [], frames := [{}], env := [0], out := [], budget := budget }

/-- Observable result of running a unit and calling its entry. -/
structure Obs where
  out : List String
  /-- `ok <rendered return value>` or `err:<class>`. -/
  result : String
  deriving Repr, BEq, DecidableEq, Inhabited

def errClass (e : String) : String := "err:" ++ e

/-- run the unit's top level, `%unit_init` if present, then `entry(args)`. -/
def runEntry (fuel : Nat) (prog : List Stmt) (entry : String) (args : List Val)
    (budget : Option Nat := none) : Obs :=
  match exec fuel (State.init budget) prog with
  | (.normal, σ1) =>
    let afterInit : Res Val × State :=
      match σ1.lookup "%unit_init" with
      | .ok f => invoke (exec fuel) σ1 f none [] []
      | .error _ => (.ok .none, σ1)
    match afterInit with
    | (.error e, σ2) => { out := σ2.out.reverse, result := errClass e }
    | (.ok _, σ2) =>
      if entry == "" then { out := σ2.out.reverse, result := "ok None" } else
      match σ2.lookup entry with
      | .error e => { out := σ2.out.reverse, result := errClass e }
      | .ok f =>
        match invoke (exec fuel) σ2 f none args [] with
        | (.ok v, σ3) => { out := σ3.out.reverse, result := "ok " ++ σ3.render v }
        | (.error e, σ3) => { out := σ3.out.reverse, result := errClass e }
  | (.err e, σ1) => { out := σ1.out.reverse, result := errClass e }
  | (_, σ1) => { out := σ1.out.reverse, result := errClass "malformed:top-level-control" }

end LianVerif.Gir
