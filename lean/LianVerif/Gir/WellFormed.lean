/-
Structural well-formedness of flattened GIR (property C03): the predicate `WFUnit` / `WFProject`
(specification) and the decidable checker `wfUnitCheck` / `wfCheck` the driver evaluates on the
*real* rows of `frontend/gir.bundle*` (certified monitor; soundness and completeness are proved in
`Proofs/WellFormed.lean`, stated in `Properties/C03.lean`).

The nesting clauses are one inductive grammar, `Lvl Q p inM last rows`:
  "`rows` is (the rest of) the sequence of statements directly inside block `p` (`p = 0`: the top
   level of the unit); `last` is the statement most recently seen at this level (the only possible
   owner of a block that starts now); `inM` says whether some enclosing block is a method body or
   a class initialiser block (`M owner block`)."
* a statement row has `parent = p` and satisfies the side condition `Q p inM r`;
* a block is `start … end` with the same id, both markers have `parent = id of the owner statement`,
  the owner is the last statement of this level, **some attribute of the owner holds the block id**,
  and what lies between the markers is a level of that block.
So a derivation says at once: markers are balanced and properly nested, an end matches the
innermost open start, every statement's parent is the innermost open block, every marker's parent
is the statement that owns the block, and every block is referenced by its (single) owner.

Core Lean only (linked into `lvdrv`).
-/
import LianVerif.Gir.Rows

namespace LianVerif.Gir

structure WfParams where
  /-- attribute names that hold blocks, besides every name ending in `body` -/
  bodyKeys : List String := ["parameters", "fields", "methods", "nested", "enum_constants",
    "annotation_type_elements", "static_init", "init", "member_methods", "finally_clause"]
  /-- `add_main_func`'s exclusion tuple -/
  exclude : List String := ["import_stmt", "from_import_stmt", "export_stmt", "type_alias_decl"]
  /-- operations that are neither `*_decl` nor in `exclude` but are not executable either -/
  nonExec : List String := ["enum_constant"]
  /-- attribute names under which a class-like declaration keeps its initialiser blocks -/
  initKeys : List String := ["init", "static_init"]
  unitInit : String := "%unit_init"

def bodyKey (P : WfParams) (k : String) : Bool := strEndsWith k "body" || P.bodyKeys.contains k

/-- the rows `add_main_func` leaves at the top level -/
def keepsTop (P : WfParams) (op : String) : Bool := strEndsWith op "_decl" || P.exclude.contains op

def isExec (P : WfParams) (op : String) : Bool := !keepsTop P op && !P.nonExec.contains op

/-- block `b` of statement `o` is a method body (any block of a `method_decl`) or a class
initialiser block (referenced by `o` under one of `initKeys`). -/
def opensMethod (P : WfParams) (o : Row) (b : Nat) : Bool :=
  o.op == "method_decl" || o.attrs.any (fun kv => P.initKeys.contains kv.1 && kv.2 == AVal.int b)

/-! ### The grammar -/

inductive Lvl (M : Row → Nat → Bool) (Q : Nat → Bool → Row → Prop) :
    Nat → Bool → Option Row → Rows → Prop
  | nil {p inM last} : Lvl M Q p inM last []
  | stmt {p inM last r rest} :
      r.isMarker = false → r.parent = p → Q p inM r →
      Lvl M Q p inM (some r) rest → Lvl M Q p inM last (r :: rest)
  | block {p inM o s e inner rest} :
      s.isStart = true → e.isEnd = true → e.id = s.id → s.parent = o.id → e.parent = o.id →
      o.hasIntAttr s.id = true →
      Lvl M Q s.id (inM || M o s.id) none inner →
      Lvl M Q p inM (some o) rest →
      Lvl M Q p inM (some o) (s :: (inner ++ e :: rest))

/-- side condition of the full property: below the top level, an executable statement lies inside
a method body or a class-initialiser block. -/
def ExecOk (P : WfParams) (p : Nat) (inM : Bool) (r : Row) : Prop :=
  p ≠ 0 → isExec P r.op = true → inM = true

def execOk (P : WfParams) (p : Nat) (inM : Bool) (r : Row) : Bool :=
  p == 0 || !isExec P r.op || inM

/-- no side condition: the pure nesting / parent / ownership structure. -/
def NoCond (_ : Nat) (_ : Bool) (_ : Row) : Prop := True

/-! ### The specification -/

def isUnitInit (P : WfParams) (r : Row) : Bool :=
  r.op == "method_decl" && r.parent == 0 && r.get "name" == AVal.str P.unitInit

structure WFUnit (P : WfParams) (rows : Rows) : Prop where
  /-- balanced, properly nested, parents = innermost open block / owner, every block referenced by
  its owner, executable statements below the top level are inside a method -/
  nested : Lvl (opensMethod P) (ExecOk P) 0 false none rows
  /-- statement ids pairwise distinct, no block id reused (an id occurs twice only as the start and
  the end marker of one block) -/
  ids_unique : (defIds rows).Nodup
  /-- `0` is never an id (it is the parent of top-level rows) -/
  ids_pos : ∀ r ∈ rows, r.id ≠ 0
  /-- only declarations / imports / exports / type aliases at the top level -/
  top_decl : ∀ r ∈ rows, r.isMarker = false → r.parent = 0 → keepsTop P r.op = true
  /-- every body-valued attribute names an existing block owned by that statement -/
  bodies_exist : ∀ r ∈ rows, r.isMarker = false → ∀ kv ∈ r.attrs, bodyKey P kv.1 = true →
      ∀ b : Int, kv.2 = AVal.int b → ∃ s ∈ rows, s.isStart = true ∧ (s.id : Int) = b ∧ s.parent = r.id
  /-- statements directly inside the same block appear in increasing id order (ids are handed out
  in source order) -/
  ordered : rows.Pairwise (fun a b => a.isMarker = false → b.isMarker = false →
      a.parent = b.parent → a.id < b.id)
  /-- at most one synthetic unit initialiser -/
  one_init : (rows.filter (isUnitInit P)).length ≤ 1

/-- The clauses that do not depend on which operations a frontend emits — what `flatten` and
`add_main_func` establish on their own (no side condition in the grammar, no `top_decl`, no
`one_init`). -/
structure WFCore (bk : String → Bool) (rows : Rows) : Prop where
  nested : ∀ (M : Row → Nat → Bool) (inM : Bool), Lvl M NoCond 0 inM none rows
  ids_unique : (defIds rows).Nodup
  ids_pos : ∀ r ∈ rows, r.id ≠ 0
  bodies_exist : ∀ r ∈ rows, r.isMarker = false → ∀ kv ∈ r.attrs, bk kv.1 = true →
      ∀ b : Int, kv.2 = AVal.int b → ∃ s ∈ rows, s.isStart = true ∧ (s.id : Int) = b ∧ s.parent = r.id

/-- the id ranges of two units do not overlap -/
def RangesDisjoint (u v : Rows) : Prop :=
  (∀ a ∈ u, ∀ b ∈ v, a.id < b.id) ∨ (∀ a ∈ u, ∀ b ∈ v, b.id < a.id)

structure WFProject (P : WfParams) (units : List Rows) : Prop where
  units_wf : ∀ u ∈ units, WFUnit P u
  ranges_disjoint : units.Pairwise RangesDisjoint

/-! ### The checker -/

/-- recursive-descent recogniser of `Lvl`.  Reads one level; stops in front of the first
`block_end` it does not own (or at the end of the table) and returns what is left. -/
def parseLvl (M : Row → Nat → Bool) (q : Nat → Bool → Row → Bool) : (fuel : Nat) → (p : Nat) → (inM : Bool) →
    (last : Option Row) → Rows → Option Rows
  | 0, _, _, _, _ => none
  | fuel + 1, p, inM, last, rows =>
    match rows with
    | [] => some []
    | r :: rest =>
      if r.isEnd then some (r :: rest)
      else if r.isStart then
        match last with
        | none => none
        | some o =>
          if r.parent == o.id && o.hasIntAttr r.id then
            match parseLvl M q fuel r.id (inM || M o r.id) none rest with
            | some (e :: rest') =>
              if e.isEnd && e.id == r.id && e.parent == o.id then parseLvl M q fuel p inM (some o) rest'
              else none
            | _ => none
          else none
      else if r.parent == p && q p inM r then parseLvl M q fuel p inM (some r) rest
      else none

def chkNested (P : WfParams) (rows : Rows) : Bool :=
  match parseLvl (opensMethod P) (execOk P) (rows.length + 1) 0 false none rows with
  | some [] => true
  | _ => false

/-- the same recogniser without the side condition (used for the pass theorems). -/
def chkShape (rows : Rows) : Bool :=
  match parseLvl (fun _ _ => false) (fun _ _ _ => true) (rows.length + 1) 0 false none rows with
  | some [] => true
  | _ => false

def chkIdsUnique (rows : Rows) : Bool := decide (defIds rows).Nodup

def chkIdsPos (rows : Rows) : Bool := rows.all (fun r => r.id != 0)

def chkTopDecl (P : WfParams) (rows : Rows) : Bool :=
  rows.all (fun r => r.isMarker || r.parent != 0 || keepsTop P r.op)

def chkBodiesExist (P : WfParams) (rows : Rows) : Bool :=
  rows.all (fun r => r.isMarker || r.attrs.all (fun kv =>
    !bodyKey P kv.1 ||
    (match kv.2 with
     | .int b => rows.any (fun s => s.isStart && ((s.id : Int) == b) && s.parent == r.id)
     | _ => true)))

def orderedRel (a b : Row) : Bool :=
  a.isMarker || b.isMarker || a.parent != b.parent || decide (a.id < b.id)

def chkOrderedFrom : Rows → Bool
  | [] => true
  | a :: rest => rest.all (orderedRel a) && chkOrderedFrom rest

def chkOneInit (P : WfParams) (rows : Rows) : Bool := decide ((rows.filter (isUnitInit P)).length ≤ 1)

/-- names of the clauses of `WFUnit` the rows fail (empty = well-formed). -/
def unitFailures (P : WfParams) (rows : Rows) : List String :=
  (if chkNested P rows then [] else (if chkShape rows then ["exec_in_method"] else ["nested"])) ++
  (if chkIdsUnique rows then [] else ["ids_unique"]) ++
  (if chkIdsPos rows then [] else ["ids_pos"]) ++
  (if chkTopDecl P rows then [] else ["top_decl"]) ++
  (if chkBodiesExist P rows then [] else ["bodies_exist"]) ++
  (if chkOrderedFrom rows then [] else ["ordered"]) ++
  (if chkOneInit P rows then [] else ["one_init"])

def wfUnitCheck (P : WfParams) (rows : Rows) : Bool :=
  chkNested P rows && chkIdsUnique rows && chkIdsPos rows && chkTopDecl P rows &&
  chkBodiesExist P rows && chkOrderedFrom rows && chkOneInit P rows

/-- `(min id, max id)` of a non-empty table -/
def idRange : Rows → Option (Nat × Nat)
  | [] => none
  | r :: rest =>
    match idRange rest with
    | none => some (r.id, r.id)
    | some (lo, hi) => some (min lo r.id, max hi r.id)

def rangesDisjoint (u v : Rows) : Bool :=
  match idRange u, idRange v with
  | some (lo1, hi1), some (lo2, hi2) => decide (hi1 < lo2) || decide (hi2 < lo1)
  | _, _ => true

def chkRangesFrom : List Rows → Bool
  | [] => true
  | u :: rest => rest.all (rangesDisjoint u) && chkRangesFrom rest

def wfCheck (P : WfParams) (units : List Rows) : Bool :=
  units.all (wfUnitCheck P) && chkRangesFrom units

end LianVerif.Gir
