/-
GIR rows — the flattened table the `lang` phase writes to `frontend/gir.bundle*` (DESIGN §4.1).

A row is the Python dict `flatten_stmt` / `flatten_block` / `add_main_func` build: the three fixed
keys `operation`, `stmt_id`, `parent_stmt_id` plus the remaining keys in insertion order (`attrs`).
Block markers are rows with `op = "block_start"` / `"block_end"` sharing one id.  `unit_id`,
`start_row`, … are ordinary attrs.

Harness side: a feather bundle is read with pandas, NaN/None → attribute absent, integral floats →
`int`, everything else `str`.

Core Lean only (this file is linked into `lvdrv`).
-/
namespace LianVerif.Gir

/-- a cell of the flattened table -/
inductive AVal where
  | none
  | int (n : Int)
  | str (s : String)
deriving DecidableEq, Repr, Inhabited

structure Row where
  op : String
  id : Nat
  parent : Nat
  attrs : List (String × AVal)
deriving DecidableEq, Repr, Inhabited

abbrev Rows := List Row

def opStart : String := "block_start"
def opEnd : String := "block_end"

def Row.isStart (r : Row) : Bool := r.op == opStart
def Row.isEnd (r : Row) : Bool := r.op == opEnd
def Row.isMarker (r : Row) : Bool := r.isStart || r.isEnd

/-- the two rows `flatten_block` emits for block `b` owned by statement `owner`. -/
def mkStart (b owner : Nat) : Row := { op := opStart, id := b, parent := owner, attrs := [] }
def mkEnd (b owner : Nat) : Row := { op := opEnd, id := b, parent := owner, attrs := [] }

/-- Python `d[k] = v` on an insertion-ordered dict: overwrite in place, else append. -/
def assocSet {β : Type} (l : List (String × β)) (k : String) (v : β) : List (String × β) :=
  match l with
  | [] => [(k, v)]
  | (k', v') :: rest => if k' == k then (k, v) :: rest else (k', v') :: assocSet rest k v

def assocGet {β : Type} (l : List (String × β)) (k : String) : Option β :=
  match l with
  | [] => Option.none
  | (k', v') :: rest => if k' == k then some v' else assocGet rest k

def Row.get (r : Row) (k : String) : AVal := (assocGet r.attrs k).getD AVal.none

/-- the three keys of the row dict that are fields of `Row`, not attrs. -/
def reservedKey (k : String) : Bool := k == "operation" || k == "stmt_id" || k == "parent_stmt_id"

/-- `row[k] = v` on the row dict.  Writing a reserved key changes the field; `none` when the value
cannot be represented in the field's type (the model then reports `unrepresentable`; no frontend
emits such keys, see `WfGir`). -/
def Row.setKey (r : Row) (k : String) (v : AVal) : Option Row :=
  if k == "operation" then
    match v with
    | .str s => some { r with op := s }
    | _ => Option.none
  else if k == "stmt_id" then
    match v with
    | .int n => if 0 ≤ n then some { r with id := n.toNat } else Option.none
    | _ => Option.none
  else if k == "parent_stmt_id" then
    match v with
    | .int n => if 0 ≤ n then some { r with parent := n.toNat } else Option.none
    | _ => Option.none
  else some { r with attrs := assocSet r.attrs k v }

/-- some attribute of `r` holds the integer `b` (a block id written by `flatten_stmt`). -/
def Row.hasIntAttr (r : Row) (b : Nat) : Bool := r.attrs.any (fun kv => kv.2 == AVal.int b)

/-- Python `s.endswith(suffix)`, on code points (written with lists so that it evaluates in the
kernel on literals). -/
def strEndsWith (s suffix : String) : Bool := suffix.toList.isSuffixOf s.toList

/-- ids of the rows that introduce an id (everything except `block_end`), in table order. -/
def defIds (rows : Rows) : List Nat := (rows.filter (fun r => !r.isEnd)).map (·.id)

end LianVerif.Gir
